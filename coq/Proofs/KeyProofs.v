From Coq Require Import Ascii DecimalString DecimalZ Decimal.
From Cashews Require Import Base.Prelude Model.Router Model.Key.
Open Scope string_scope.
Open Scope list_scope.

(* ---------- association lists ---------- *)
Lemma kv_find_app a b n : kv_find (a ++ b) n = match kv_find a n with Some v => Some v | None => kv_find b n end.
Proof. induction a as [|[k v] a IH]; cbn; [reflexivity|]. destruct (String.eqb n k); auto. Qed.
Lemma kv_find_set m k v n : kv_find (kv_set m k v) n = if String.eqb n k then Some v else kv_find m n.
Proof.
  induction m as [|[k' v'] m IH]; cbn.
  - destruct (String.eqb n k); reflexivity.
  - destruct (String.eqb_spec k k') as [->|Hn]; cbn.
    + destruct (String.eqb n k'); reflexivity.
    + destruct (String.eqb_spec n k') as [->|]; [destruct (String.eqb_spec k' k); congruence|apply IH].
Qed.
Lemma kv_find_notin m n : ~ In n (map fst m) -> kv_find m n = None.
Proof.
  induction m as [|[k v] m IH]; cbn; [reflexivity|]. intro H.
  destruct (String.eqb_spec n k) as [->|]; [exfalso; apply H; left; reflexivity|]. apply IH. tauto.
Qed.
Lemma kv_find_merge K : forall D n, NoDup (map fst K) ->
  kv_find (kv_merge D K) n = match kv_find K n with Some v => Some v | None => kv_find D n end.
Proof.
  unfold kv_merge. induction K as [|[k v] K IH]; intros D n Hnd; cbn [fold_left kv_find]; [reflexivity|].
  cbn in Hnd. inversion Hnd as [|? ? Hnin Hnd']; subst. cbn [fst snd].
  rewrite IH by exact Hnd'. rewrite kv_find_set.
  destruct (String.eqb_spec n k) as [->|]; [rewrite (kv_find_notin K k Hnin); reflexivity|reflexivity].
Qed.

(* ---------- well-formedness ---------- *)
Definition special (n : string) : Prop := n = ARGS \/ n = KWARGS.
Definition wf_sig (s : sig) : Prop := NoDup (map pname s) /\ forall p, In p s -> ~ special (pname p).
Definition wf_kwargs (K : kvmap) : Prop := NoDup (map fst K) /\ forall e, In e K -> ~ special (fst e).
Definition ok_field (s : sig) (n : string) : Prop :=
  (exists p, In p s /\ is_named p = true /\ pname p = n) \/ (n = ARGS /\ has_kind s VP = true) \/ (n = KWARGS /\ has_kind s VK = true).

Lemma mems_In n l : mems n l = true <-> In n l.
Proof.
  unfold mems. rewrite existsb_exists. split.
  - intros (x & Hx & E). apply String.eqb_eq in E. subst. exact Hx.
  - intro H. exists n. split; [exact H|apply String.eqb_refl].
Qed.

Lemma extras_names s K n : In n (map fst (extras s K)) -> In n (map fst K) /\ ~ In n (non_vk_names s).
Proof.
  unfold extras. rewrite map_map. cbn. intro H. apply in_map_iff in H as (e & <- & He).
  apply filter_In in He as [He Hf]. split; [apply in_map; exact He|].
  intro Hin. apply mems_In in Hin. rewrite Hin in Hf. discriminate.
Qed.
Lemma named_in_non_vk s p : In p s -> is_named p = true -> In (pname p) (non_vk_names s).
Proof.
  intros Hp Hn. unfold non_vk_names. apply in_map. apply filter_In. split; [exact Hp|].
  unfold is_named in Hn. destruct (pk p); try discriminate; reflexivity.
Qed.

(* ---------- lookups in the bound arguments ---------- *)
Section Bound.
Variables (s : sig) (F K : kvmap) (sur : list kval).
Hypothesis Hwf : wf_sig s.
Hypothesis HK : wf_kwargs K.

Definition entries (p : param) : kvmap :=
  match pk p with
  | PK | KO => match bound_val F K p with Some v => [(pname p, v)] | None => [] end
  | VP => [(ARGS, KTuple (map to_atom sur))]
  | VK => (KWARGS, KDict (extras s K)) :: map (fun e => (fst e, KA (snd e))) (extras s K)
  end.
Lemma bound_map_flat : bound_map s F K sur = flat_map entries s.
Proof. reflexivity. Qed.

(* keys an entry block can contain *)
Lemma entries_keys p n : In n (map fst (entries p)) ->
  (is_named p = true /\ n = pname p) \/ (pk p = VP /\ n = ARGS) \/ (pk p = VK /\ (n = KWARGS \/ In n (map fst (extras s K)))).
Proof.
  unfold entries, is_named. destruct (pk p) eqn:E; cbn.
  - destruct (bound_val F K p); cbn; [intros [<-|[]]; auto|intros []].
  - destruct (bound_val F K p); cbn; [intros [<-|[]]; auto|intros []].
  - intros [<-|[]]. auto.
  - intros [<-|H]; [auto|]. right. right. split; [reflexivity|]. right.
    rewrite map_map in H. cbn in H. exact H.
Qed.

Lemma find_named l p v : incl l s -> NoDup (map pname l) -> In p l -> is_named p = true ->
  bound_val F K p = Some v -> kv_find (flat_map entries l) (pname p) = Some v.
Proof.
  induction l as [|q l IH]; intros Hincl Hnd Hin Hnamed Hv; [destruct Hin|]. cbn [flat_map].
  rewrite kv_find_app. cbn in Hnd. inversion Hnd as [|? ? Hq Hnd']; subst.
  destruct Hin as [->|Hin].
  - unfold entries at 1. unfold is_named in Hnamed. destruct (pk p); try discriminate; rewrite Hv; cbn; rewrite String.eqb_refl; reflexivity.
  - assert (Hne : pname q <> pname p) by (intro E; apply Hq; rewrite E; apply in_map; exact Hin).
    rewrite (kv_find_notin (entries q) (pname p)); [apply IH; auto; intros x Hx; apply Hincl; right; exact Hx|].
    intro Hk. apply entries_keys in Hk as [[_ E]|[[_ E]|[_ [E|E]]]].
    + congruence.
    + destruct Hwf as [_ Hsp]. apply (Hsp p); [apply Hincl; right; exact Hin|left; exact E].
    + destruct Hwf as [_ Hsp]. apply (Hsp p); [apply Hincl; right; exact Hin|right; exact E].
    + apply extras_names in E as [_ E]. apply E. apply named_in_non_vk; [apply Hincl; right; exact Hin|exact Hnamed].
Qed.

Lemma find_args l : incl l s -> existsb (fun p => match pk p with VP => true | _ => false end) l = true ->
  kv_find (flat_map entries l) ARGS = Some (KTuple (map to_atom sur)).
Proof.
  induction l as [|q l IH]; intros Hincl Hex; [discriminate|]. cbn [flat_map existsb] in *. rewrite kv_find_app.
  destruct (pk q) eqn:E.
  1,2: rewrite (kv_find_notin (entries q) ARGS); [apply IH; [intros x Hx; apply Hincl; right; exact Hx|exact Hex]|];
       intro Hk; apply entries_keys in Hk as [[_ Hk]|[[Hk _]|[Hk _]]]; try congruence;
       destruct Hwf as [_ Hsp]; apply (Hsp q); [apply Hincl; left; reflexivity|left; symmetry; exact Hk].
  - unfold entries. rewrite E. reflexivity.
  - rewrite (kv_find_notin (entries q) ARGS); [apply IH; [intros x Hx; apply Hincl; right; exact Hx|exact Hex]|].
    intro Hk. apply entries_keys in Hk as [[Hn _]|[[Hk _]|[_ [Hk|Hk]]]].
    + unfold is_named in Hn. rewrite E in Hn. discriminate.
    + congruence.
    + discriminate.
    + apply extras_names in Hk as [Hk _]. destruct HK as [_ Hsp]. apply in_map_iff in Hk as (e & Ee & He).
      apply (Hsp e He). left. exact Ee.
Qed.

Lemma find_kwargs l : incl l s -> existsb (fun p => match pk p with VK => true | _ => false end) l = true ->
  kv_find (flat_map entries l) KWARGS = Some (KDict (extras s K)).
Proof.
  induction l as [|q l IH]; intros Hincl Hex; [discriminate|]. cbn [flat_map existsb] in *. rewrite kv_find_app.
  destruct (pk q) eqn:E.
  1,2,3: rewrite (kv_find_notin (entries q) KWARGS); [apply IH; [intros x Hx; apply Hincl; right; exact Hx|exact Hex]|];
       intro Hk; apply entries_keys in Hk as [[_ Hk]|[[_ Hk]|[Hk _]]]; try congruence; try discriminate;
       destruct Hwf as [_ Hsp]; apply (Hsp q); [apply Hincl; left; reflexivity|right; symmetry; exact Hk].
  - unfold entries. rewrite E. reflexivity.
Qed.
End Bound.

Lemma has_kind_VP s : has_kind s VP = existsb (fun p => match pk p with VP => true | _ => false end) s.
Proof. unfold has_kind. induction s as [|p s IH]; cbn; [reflexivity|]. destruct (pk p); cbn; try reflexivity; exact IH. Qed.
Lemma has_kind_VK s : has_kind s VK = existsb (fun p => match pk p with VK => true | _ => false end) s.
Proof. unfold has_kind. induction s as [|p s IH]; cbn; [reflexivity|]. destruct (pk p); cbn; try reflexivity; exact IH. Qed.

(* ---------- defaults ---------- *)
Definition dent (p : param) : kvmap :=
  match pk p, pdefault p with
  | (PK | KO), Some d => [(pname p, d)]
  | VP, _ => [(ARGS, KTuple [])]
  | _, _ => []
  end.
Lemma defaults_flat l : defaults l = flat_map dent l.
Proof. reflexivity. Qed.
Lemma dent_keys q n : In n (map fst (dent q)) -> n = pname q \/ n = ARGS.
Proof. unfold dent. destruct (pk q), (pdefault q); cbn; intuition. Qed.
Lemma defaults_keys l n : In n (map fst (flat_map dent l)) -> In n (map pname l) \/ n = ARGS.
Proof.
  induction l as [|q l IH]; cbn; [tauto|]. rewrite map_app, in_app_iff. intros [H|H].
  - apply dent_keys in H as [-> | ->]; auto.
  - destruct (IH H); auto.
Qed.

Lemma find_defaults_named l p : NoDup (map pname l) -> In p l -> is_named p = true -> pname p <> ARGS ->
  kv_find (defaults l) (pname p) = pdefault p.
Proof.
  rewrite defaults_flat. induction l as [|q l IH]; intros Hnd Hin Hnamed Hna; [destruct Hin|].
  cbn [flat_map]. rewrite kv_find_app. cbn in Hnd. inversion Hnd as [|? ? Hq Hnd']; subst.
  destruct Hin as [->|Hin].
  - unfold dent at 1. unfold is_named in Hnamed.
    destruct (pk p); try discriminate; destruct (pdefault p) as [d|]; cbn [kv_find]; rewrite ?String.eqb_refl; try reflexivity;
      (apply kv_find_notin; intro Hk; apply defaults_keys in Hk as [Hk|Hk]; [exact (Hq Hk)|exact (Hna Hk)]).
  - assert (Hne : pname q <> pname p) by (intro E; apply Hq; rewrite E; apply in_map; exact Hin).
    rewrite (kv_find_notin (dent q) (pname p)); [apply IH; assumption|].
    intro Hk. apply dent_keys in Hk as [Hk|Hk]; congruence.
Qed.

Lemma find_defaults_args l : (forall p, In p l -> pname p <> ARGS) ->
  kv_find (defaults l) ARGS = if existsb (fun p => match pk p with VP => true | _ => false end) l then Some (KTuple []) else None.
Proof.
  rewrite defaults_flat. induction l as [|q l IH]; intro Hn; [reflexivity|]. cbn [flat_map existsb]. rewrite kv_find_app.
  assert (Hq : pname q <> ARGS) by (apply Hn; left; reflexivity).
  specialize (IH (fun p Hp => Hn p (or_intror Hp))).
  unfold dent at 1. destruct (pk q) eqn:E; destruct (pdefault q); cbn [kv_find orb]; try exact IH; try reflexivity;
    (destruct (String.eqb_spec ARGS (pname q)); [congruence|exact IH]).
Qed.

(* ---------- rendering depends only on the looked-up fields ---------- *)
Lemma forallb_ext_in' {A} (f g : A -> bool) l : (forall x, In x l -> f x = g x) -> forallb f l = forallb g l.
Proof. induction l as [|x l IH]; cbn; intro H; [reflexivity|]. rewrite H by (left; reflexivity). rewrite IH; [reflexivity|]. intros y Hy. apply H. right. exact Hy. Qed.
Lemma render_ext t kv1 kv2 : (forall n, In n (fields t) -> kv_find kv1 n = kv_find kv2 n) -> render t kv1 = render t kv2.
Proof.
  intro H. unfold render.
  assert (F : forallb (kv_has kv1) (fields t) = forallb (kv_has kv2) (fields t)).
  { apply forallb_ext_in'. intros n Hn. unfold kv_has. rewrite (H n Hn). reflexivity. }
  rewrite F. f_equal. apply map_ext_in. intros g Hg. destruct g as [l|n]; [reflexivity|].
  rewrite H; [reflexivity|]. unfold fields. apply in_flat_map. exists (Fld n). split; [exact Hg|left; reflexivity].
Qed.

(* ---------- a call without positional arguments sees what bind would have bound ---------- *)
Lemma bind_nil s K b : bind s [] K = Some b ->
  b = bound_map s [] K [] /\ forallb (fun p => negb (is_named p) || isSome (bound_val [] K p)) s = true.
Proof.
  unfold bind. cbn [bind_pos].
  repeat match goal with |- context [if ?c then None else _] => destruct c eqn:?; [discriminate|] end.
  intro Hb. injection Hb as Hb. subst b. split; [reflexivity|].
  match goal with H : negb (forallb _ s) = false |- _ => apply negb_false_iff in H; exact H end.
Qed.

Lemma noargs_lookup s t given K b : wf_sig s -> wf_kwargs K -> bind s [] K = Some b ->
  exists kv, key_values s t given [] K = Some kv /\
    forall n, In n (fields t) -> ok_field s n -> kv_find kv n = kv_find b n.
Proof.
  intros Hs HK Hb. apply bind_nil in Hb as [-> Hall]. rewrite bound_map_flat.
  assert (Named : forall p, In p s -> is_named p = true ->
            kv_find (kv_merge (defaults s) K) (pname p) = kv_find (flat_map (entries s [] K []) s) (pname p)).
  { intros p Hp Hn. rewrite forallb_forall in Hall. specialize (Hall p Hp). rewrite Hn in Hall. cbn [negb orb] in Hall.
    destruct (bound_val [] K p) as [v|] eqn:Bv; [|discriminate].
    rewrite (find_named s [] K [] Hs s p v (incl_refl s) (proj1 Hs) Hp Hn Bv).
    rewrite kv_find_merge by exact (proj1 HK).
    unfold bound_val in Bv. cbn [kv_find] in Bv. destruct (kv_find K (pname p)); [exact Bv|].
    rewrite find_defaults_named; [exact Bv|exact (proj1 Hs)|exact Hp|exact Hn|].
    intro E. apply (proj2 Hs p Hp). left. exact E. }
  assert (NoSpecialK : forall n, special n -> kv_find K n = None).
  { intros n Hn. apply kv_find_notin. intro Hin. apply in_map_iff in Hin as (e & <- & He). exact (proj2 HK e He Hn). }
  assert (Args : has_kind s VP = true ->
            kv_find (kv_merge (defaults s) K) ARGS = kv_find (flat_map (entries s [] K []) s) ARGS).
  { intro Hv. rewrite kv_find_merge by exact (proj1 HK). rewrite (NoSpecialK ARGS (or_introl eq_refl)).
    rewrite find_defaults_args by (intros p Hp E; apply (proj2 Hs p Hp); left; exact E).
    rewrite has_kind_VP in Hv. rewrite Hv.
    rewrite (find_args s [] K [] Hs HK s (incl_refl s) Hv). reflexivity. }
  unfold key_values, call_values.
  destruct (given && negb (mems KWARGS (fields t)) && negb (mems ARGS (fields t))) eqn:Fast.
  - eexists. split; [reflexivity|]. intros n Hn [(p & Hp & Hnm & <-)|[[-> Hv]|[-> Hv]]].
    + apply Named; assumption.
    + exfalso. apply andb_true_iff in Fast as [_ F]. apply negb_true_iff in F.
      assert (mems ARGS (fields t) = true) by (apply mems_In; exact Hn). congruence.
    + exfalso. apply andb_true_iff in Fast as [F _]. apply andb_true_iff in F as [_ F]. apply negb_true_iff in F.
      assert (mems KWARGS (fields t) = true) by (apply mems_In; exact Hn). congruence.
  - eexists. split; [reflexivity|]. intros n Hn [(p & Hp & Hnm & <-)|[[-> Hv]|[-> Hv]]]; rewrite kv_find_set.
    + destruct (String.eqb_spec (pname p) KWARGS) as [E|_]; [exfalso; apply (proj2 Hs p Hp); right; exact E|].
      apply Named; assumption.
    + change (String.eqb ARGS KWARGS) with false. cbn iota. apply Args. exact Hv.
    + rewrite String.eqb_refl. rewrite has_kind_VK in Hv.
      rewrite (find_kwargs s [] K [] Hs s (incl_refl s) Hv). reflexivity.
Qed.

Lemma any_call_lookup s t given args K b : wf_sig s -> wf_kwargs K -> bind s args K = Some b ->
  exists kv, key_values s t given args K = Some kv /\
    forall n, In n (fields t) -> ok_field s n -> kv_find kv n = kv_find b n.
Proof.
  intros Hs HK Hb. destruct args as [|a args]; [apply noargs_lookup; assumption|].
  exists b. split; [unfold key_values, call_values; exact Hb|reflexivity].
Qed.

(* C08, first half: the key is a function of the bound arguments *)
Theorem key_canonical s t given args1 K1 args2 K2 b :
  wf_sig s -> wf_kwargs K1 -> wf_kwargs K2 -> (forall n, In n (fields t) -> ok_field s n) ->
  bind s args1 K1 = Some b -> bind s args2 K2 = Some b ->
  cache_key s t given args1 K1 = cache_key s t given args2 K2 /\ cache_key s t given args1 K1 <> None.
Proof.
  intros Hs H1 H2 Hf B1 B2.
  destruct (any_call_lookup s t given args1 K1 b Hs H1 B1) as (kv1 & E1 & L1).
  destruct (any_call_lookup s t given args2 K2 b Hs H2 B2) as (kv2 & E2 & L2).
  unfold cache_key. rewrite E1, E2. cbn [option_map]. split; [|discriminate]. f_equal.
  apply render_ext. intros n Hn. rewrite L1, L2; auto.
Qed.

(* ---------- C08, second half: separable values give different keys ---------- *)
Local Open Scope string_scope.
Fixpoint has_colon (s : string) : bool :=
  match s with EmptyString => false | String c r => Ascii.eqb c ":" || has_colon r end.
Definition tailish (s : string) : Prop := s = "" \/ exists r, s = String ":" r.

Lemma append_inj_l (a : string) : forall b c, (a ++ b = a ++ c)%string -> b = c.
Proof. induction a as [|x a IH]; cbn; intros b c H; [exact H|]. injection H as H. apply IH, H. Qed.
Lemma append_nil_r (a : string) : (a ++ "")%string = a.
Proof. induction a as [|x a IH]; cbn; [reflexivity|]. f_equal. exact IH. Qed.

Lemma nocolon_split a : forall b S1 S2, has_colon a = false -> has_colon b = false -> tailish S1 -> tailish S2 ->
  (a ++ S1 = b ++ S2)%string -> a = b.
Proof.
  induction a as [|x a IH]; intros [|y b] S1 S2 Ha Hb T1 T2 E; cbn [append has_colon] in *.
  - reflexivity.
  - exfalso. subst S1. destruct T1 as [T1|(r & T1)]; [discriminate|]. injection T1 as Hy _. subst y.
    rewrite Ascii.eqb_refl in Hb. discriminate.
  - exfalso. subst S2. destruct T2 as [T2|(r & T2)]; [discriminate|]. injection T2 as Hx _. subst x.
    rewrite Ascii.eqb_refl in Ha. discriminate.
  - injection E as Hxy E. subst y. apply orb_false_iff in Ha as [_ Ha]. apply orb_false_iff in Hb as [_ Hb].
    f_equal. apply (IH b S1 S2); assumption.
Qed.

Lemma uint_nocolon u : has_colon (NilEmpty.string_of_uint u) = false.
Proof. induction u; cbn; try reflexivity; exact IHu. Qed.
Lemma dec_nocolon z : has_colon (dec z) = false.
Proof. unfold dec, NilEmpty.string_of_int. destruct (Z.to_int z); cbn; apply uint_nocolon. Qed.
Lemma dec_inj a b : dec a = dec b -> a = b.
Proof.
  unfold dec. intro H. apply (f_equal NilEmpty.int_of_string) in H. rewrite !NilEmpty.isi in H. injection H as H.
  apply (f_equal Z.of_int) in H. rewrite !DecimalZ.of_to in H. exact H.
Qed.

Definition separable (a1 a2 : atom) : Prop :=
  match a1, a2 with
  | AStr s1, AStr s2 => has_colon s1 = false /\ has_colon s2 = false
  | AInt _, AInt _ => True
  | ABool _, ABool _ => True
  | _, _ => False
  end.
Lemma separable_render a1 a2 fast : separable a1 a2 ->
  r_val fast (KA a1) = r_atom a1 /\ r_val fast (KA a2) = r_atom a2 /\
  has_colon (r_atom a1) = false /\ has_colon (r_atom a2) = false /\ (r_atom a1 = r_atom a2 -> a1 = a2).
Proof.
  destruct a1, a2; cbn; try tauto; destruct fast; cbn.
  all: try (intros [H1 H2]; repeat split; auto; congruence).
  all: try (intros _; repeat split; auto using dec_nocolon; intro E; f_equal; apply dec_inj; exact E).
  all: intros _; repeat split; try (destruct b; reflexivity); try (destruct b0; reflexivity);
       destruct b, b0; cbn; congruence.
Qed.

Fixpoint colon_sep (t : template) : bool :=
  match t with
  | [] => true
  | Lit _ :: rest => colon_sep rest
  | Fld _ :: rest => match rest with
                     | [] => true
                     | Lit (String c _) :: _ => Ascii.eqb c ":" && colon_sep rest
                     | _ => false
                     end
  end.

Definition seg_str (fast : bool) (kv : kvmap) (g : seg) : string :=
  match g with Lit s => s | Fld n => match kv_find kv n with Some v => r_val fast v | None => "" end end.
Definition rend (fast : bool) (kv : kvmap) (t : template) : string := String.concat "" (map (seg_str fast kv) t).
Lemma rend_cons fast kv g t : rend fast kv (g :: t) = (seg_str fast kv g ++ rend fast kv t)%string.
Proof. unfold rend. cbn [map String.concat]. destruct (map (seg_str fast kv) t) eqn:E; [cbn; symmetry; apply append_nil_r|reflexivity]. Qed.

Lemma rend_tailish fast kv t c l : Ascii.eqb c ":" = true -> tailish (rend fast kv (Lit (String c l) :: t)).
Proof. intro E. apply Ascii.eqb_eq in E. subst c. right. rewrite rend_cons. cbn. eexists. reflexivity. Qed.

Lemma fields_cons_fld m t : fields (Fld m :: t) = m :: fields t.
Proof. reflexivity. Qed.
Lemma fields_cons_lit l t : fields (Lit l :: t) = fields t.
Proof. reflexivity. Qed.

Lemma separates_rend fast kv1 kv2 n a1 a2 : kv_find kv1 n = Some (KA a1) -> kv_find kv2 n = Some (KA a2) ->
  separable a1 a2 -> a1 <> a2 ->
  forall t, colon_sep t = true -> In n (fields t) ->
  (forall m, In m (fields t) -> m <> n -> kv_find kv1 m = kv_find kv2 m) ->
  rend fast kv1 t <> rend fast kv2 t.
Proof.
  intros F1 F2 Hsep Hne. destruct (separable_render a1 a2 fast Hsep) as (R1 & R2 & C1 & C2 & Inj).
  induction t as [|g t IH]; intros Hcs Hin Hsame; [destruct Hin|].
  rewrite !rend_cons. destruct g as [l|m].
  - cbn [seg_str]. intro E. apply append_inj_l in E. revert E. apply IH; auto.
  - rewrite fields_cons_fld in *. destruct (String.eqb_spec m n) as [->|Hmn].
    + cbn [seg_str]. rewrite F1, F2, R1, R2. intro E. apply Hne, Inj.
      cbn [colon_sep] in Hcs.
      eapply nocolon_split; [exact C1|exact C2| | |exact E].
      * destruct t as [|[[|c l]|] t']; try discriminate; [left; reflexivity|]. apply andb_true_iff in Hcs as [Hc _]. apply rend_tailish, Hc.
      * destruct t as [|[[|c l]|] t']; try discriminate; [left; reflexivity|]. apply andb_true_iff in Hcs as [Hc _]. apply rend_tailish, Hc.
    + cbn [seg_str]. rewrite (Hsame m (or_introl eq_refl) Hmn). intro E. apply append_inj_l in E. revert E.
      apply IH.
      * cbn [colon_sep] in Hcs. destruct t as [|[[|c l]|] t']; try discriminate; [reflexivity|]. apply andb_true_iff in Hcs as [_ Hc]. exact Hc.
      * destruct Hin as [E|Hin]; [congruence|exact Hin].
      * intros m' Hm'. apply Hsame. right. exact Hm'.
Qed.

Theorem key_separates t kv1 kv2 n a1 a2 : colon_sep t = true -> In n (fields t) ->
  (forall m, In m (fields t) -> m <> n -> kv_find kv1 m = kv_find kv2 m) ->
  kv_find kv1 n = Some (KA a1) -> kv_find kv2 n = Some (KA a2) -> separable a1 a2 -> a1 <> a2 ->
  render t kv1 <> render t kv2.
Proof.
  intros Hcs Hin Hsame F1 F2 Hsep Hne. unfold render.
  assert (F : forallb (kv_has kv1) (fields t) = forallb (kv_has kv2) (fields t)).
  { apply forallb_ext_in'. intros m Hm. unfold kv_has. destruct (String.eqb_spec m n) as [->|Hmn]; [rewrite F1, F2; reflexivity|].
    rewrite (Hsame m Hm Hmn). reflexivity. }
  rewrite F. exact (separates_rend _ kv1 kv2 n a1 a2 F1 F2 Hsep Hne t Hcs Hin Hsame).
Qed.

(* the automatic template is ':'-separated *)
Lemma auto_template_colon_sep prefix s : colon_sep (auto_template prefix s) = true.
Proof.
  unfold auto_template. cbn [colon_sep]. induction s as [|p s IH]; [reflexivity|]. cbn [flat_map].
  destruct (pk p); cbn [app colon_sep]; try exact IH.
  all: destruct (flat_map _ s) as [|[[|c l]|] r] eqn:E; cbn in *; try reflexivity; try exact IH;
       destruct s as [|q s']; try discriminate; cbn in E; destruct (pk q); try discriminate; injection E as <- <- <-; try reflexivity; exact IH.
Qed.

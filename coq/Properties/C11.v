(* C11 - the in-memory backend respects its capacity and evicts least-recently-used first.
   Statements only. *)
From Cashews Require Import Base.Prelude Base.OMap Spec.TTLMap Spec.LRU Model.Memory Proofs.LRUProofs.

(* after every command of every history the store holds at most `size` entries *)
Theorem C11_capacity : forall size h s, (length s <= size)%nat -> (length (final_store size s h) <= size)%nat.
Proof. exact capacity_history. Qed.
Print Assumptions C11_capacity.

(* the store's key order after any history is the recency list obtained by replaying the
   history's trace of Touch / Drop / Evict operations, and every Evict in the trace fires
   only on a list longer than the capacity *)
Theorem C11_order_is_recency : forall size h s, Tr size s (h_trace size s h) (final_store size s h).
Proof. exact Tr_history. Qed.
Print Assumptions C11_order_is_recency.

(* whenever an eviction happens, the evicted key is the least recently touched one, and at
   least `size` other, pairwise distinct keys carry a more recent touch stamp *)
Theorem C11_evicts_lru : forall size h pre post,
  h_trace size [] h = pre ++ Evict :: post ->
  exists k sk rest,
    fst (r_run ([], 0%nat) pre) = (k, sk) :: rest /\ (size <= length rest)%nat /\
    Forall (fun e => (sk < snd e)%nat /\ fst e <> k) rest /\ NoDup (map fst rest).
Proof. exact evict_is_lru. Qed.
Print Assumptions C11_evicts_lru.

(* the touches made by a purge pass are not uses: the pass keeps the survivors' order *)
Theorem C11_sweep_keeps_order : forall s now, NoDup (keys s) ->
  keys (m_sweep (keys s) s now) = filter (alive s now) (keys s).
Proof. exact sweep_keeps_order. Qed.
Print Assumptions C11_sweep_keeps_order.

(* stamped recency lists stay sorted by stamp with distinct keys under any operations *)
Theorem C11_recency_invariant : forall ops, r_inv (r_run ([], 0%nat) ops).
Proof. exact (fun ops => r_inv_run ops _ r_inv_init). Qed.
Print Assumptions C11_recency_invariant.

(* non-vacuity: size 2; a, b written; a read (touch); c written -> b, not a, is evicted *)
Example C11_example :
  let h := [(1, Set_ "a" (VInt 1) 0 None); (1, Set_ "b" (VInt 2) 0 None); (1, Get "a"); (1, Set_ "c" (VInt 3) 0 None)]%string in
  keys (final_store 2 [] h) = ["a"; "c"]%string /\
  h_trace 2 [] h = [Touch "a"; Touch "b"; Touch "a"; Touch "c"; Evict]%string.
Proof. vm_compute. split; reflexivity. Qed.

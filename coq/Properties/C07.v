(* C07 - single flight: one execution per key in flight, shared by all waiters, cancellation stays local. Statements only. *)
From Cashews Require Import Base.Prelude Model.SingleFlight Proofs.SingleFlightProofs.
Open Scope nat_scope.

(* every event sequence (calls of any number of callers on any keys, task starts, body resumptions, done-callbacks and
   cancellations in any order - finer than any schedule the event loop can produce), shielded or not:
   at most one body per key is executing *)
Theorem C07_one_body : forall sh evs k, running (run sh evs) k <= 1.
Proof. exact sf_one_body. Qed.
Print Assumptions C07_one_body.

Theorem C07_invariant : forall sh evs, Inv sh (run sh evs).
Proof. exact inv_reachable. Qed.
Print Assumptions C07_invariant.

(* a call made while a task is registered under its key creates no task and starts no body: the caller waits for that
   task, or takes its outcome at once if it has just finished *)
Theorem C07_join : forall sh evs i k n o f, let c := run sh evs in
  table c k = Some f -> callers c i = Idle ->
  let c' := fst (step sh c (Call i k n o)) in
  snd (step sh c (Call i k n o)) = false /\ flights c' = flights c /\ started c' = started c /\ running c' = running c /\
  (callers c' i = Waiting f \/ exists o', callers c' i = Got (Some f) o' /\ phase_of c f = Some (Done o')).
Proof. exact sf_join. Qed.
Print Assumptions C07_join.

(* what a caller is handed is exactly the outcome (result or exception) of the task it joined ... *)
Theorem C07_shared_outcome : forall sh evs i f o,
  callers (run sh evs) i = Got (Some f) o -> phase_of (run sh evs) f = Some (Done o).
Proof. exact sf_shared_outcome. Qed.
Print Assumptions C07_shared_outcome.

(* ... a waiting caller's task stays registered until its done-callback, which hands every waiter that outcome ... *)
Theorem C07_no_orphan : forall sh evs i f, callers (run sh evs) i = Waiting f ->
  exists fl, flights (run sh evs) f = Some fl /\ table (run sh evs) (fkey fl) = Some f.
Proof. exact sf_no_orphan. Qed.
Print Assumptions C07_no_orphan.

Theorem C07_delivered : forall sh c f fl o, flights c f = Some fl -> fphase fl = Done o -> table c (fkey fl) = Some f ->
  let c' := fst (step sh c (Unreg f)) in forall j, callers c j = Waiting f -> callers c' j = Got (Some f) o.
Proof. exact sf_delivered. Qed.
Print Assumptions C07_delivered.

(* ... and that outcome is what the task's own body did, or a value a body of that key returned earlier (cache hit);
   with shielded waiting nobody is handed a CancelledError he did not ask for *)
Theorem C07_outcome_provenance : forall evs f fl o, let c := run true evs in
  flights c f = Some fl -> fphase fl = Done o -> o = fout fl \/ exists v, o = Ret v /\ produced c (fkey fl) v.
Proof. exact sf_outcome_provenance. Qed.
Print Assumptions C07_outcome_provenance.

Theorem C07_no_foreign_cancel : forall evs i f o, Forall good_event evs -> callers (run true evs) i = Got f o -> o <> Cancelled.
Proof. exact sf_no_foreign_cancel. Qed.
Print Assumptions C07_no_foreign_cancel.

(* cancelling a caller that is waiting changes nothing but that caller's own state, now and after any continuation:
   same table, tasks, cache, execution counters, and every other caller's outcome *)
Theorem C07_cancel_local : forall c i f evs, callers c i = Waiting f ->
  same_but i (run_from true (fst (step true c (Cancel i))) evs) (run_from true c evs).
Proof. exact sf_cancel_local. Qed.
Print Assumptions C07_cancel_local.

(* the same statement is false when callers await the shared task directly (the code before the fix): witness *)
Theorem C07_cancel_local_unshielded_refuted :
  let c := run false refute_pre in
  callers c 1 = Waiting 0 /\
  callers (run_from false c refute_post) 0 = Got (Some 0) (Ret 5%Z) /\
  callers (run_from false (fst (step false c (Cancel 1))) (Unreg 0 :: refute_post)) 0 = Got (Some 0) Cancelled /\
  callers (run_from true (fst (step true c (Cancel 1))) refute_post) 0 = Got (Some 0) (Ret 5%Z).
Proof. exact sf_cancel_local_unshielded_refuted. Qed.
Print Assumptions C07_cancel_local_unshielded_refuted.

(* non-vacuity: three callers of one key, one body, the joiner and the late caller get the creator's result *)
Example C07_example :
  let c := run true [Call 0 0 1 (Ret 100%Z); Start 0; Call 1 0 3 (Raise 1%Z); Step 0; Call 2 0 0 (Ret 102%Z); Unreg 0; Call 3 0 0 (Ret 103%Z); Start 1; Unreg 1] in
  (callers c 0, callers c 1, callers c 2, callers c 3, started c 0) =
  (Got (Some 0) (Ret 100%Z), Got (Some 0) (Ret 100%Z), Got (Some 0) (Ret 100%Z), Got (Some 1) (Ret 100%Z), 1).
Proof. vm_compute. reflexivity. Qed.

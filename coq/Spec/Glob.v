(* C13 spec: '*' matches any run of characters, every other character matches itself. *)
From Coq Require Export Ascii.
From Cashews Require Import Base.Prelude.

Definition is_star (c : ascii) : bool := Ascii.eqb c "*"%char.

Fixpoint glob (p : list ascii) : list ascii -> bool :=
  match p with
  | [] => fun s => match s with [] => true | _ => false end
  | c :: p' =>
      if is_star c
      then fix star (s : list ascii) : bool :=
             glob p' s || match s with [] => false | _ :: s' => star s' end
      else fun s => match s with c' :: s' => Ascii.eqb c c' && glob p' s' | [] => false end
  end.

Definition globs (p s : string) : bool := glob (list_ascii_of_string p) (list_ascii_of_string s).

(* Correspondence + oracle for C01 (and the shared case type of C11). *)
From Cashews Require Import Base.Prelude Base.OMap Spec.TTLMap Model.Memory.

(* history event, what the implementation returned, and (when observed) list(store) after it *)
Definition obs := (res * option (list key))%type.
Inductive case := CMem (size : nat) (h : list (Z * cmd)) (o : list obs).

Definition order_ok (mo : list key) (io : option (list key)) : bool :=
  match io with None => true | Some l => list_eqb String.eqb mo l end.
Fixpoint agree_run (mr : list (res * list key)) (o : list obs) : bool :=
  match mr, o with
  | [], [] => true
  | (r, ks) :: mr', (r', ks') :: o' => res_eqb r r' && order_ok ks ks' && agree_run mr' o'
  | _, _ => false
  end.
Fixpoint ok_run (sr : list res) (o : list obs) : bool :=
  match sr, o with
  | [], [] => true
  | r :: sr', (r', _) :: o' => res_eqb r r' && ok_run sr' o'
  | _, _ => false
  end.

Fixpoint dedup (l : list key) : list key :=
  match l with [] => [] | k :: r => if existsb (String.eqb k) r then dedup r else k :: dedup r end.
Definition distinct_keys (h : list (Z * cmd)) : nat := length (dedup (flat_map (fun e => cmd_keys (snd e)) h)).

(* C01 oracle: within capacity, the implementation's results are those of the TTL map *)
Definition judge (c : case) : verdict :=
  match c with
  | CMem size h o =>
      (agree_run (run_m size [] h) o,
       if (distinct_keys h <=? size)%nat then ok_run (run_s empty h) o else true,
       [])
  end.

Definition explain (c : case) :=
  match c with CMem size h _ => (run_m size [] h, run_s empty h) end.

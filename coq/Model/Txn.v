(* Executable image of backends/transaction.py: TransactionBackend as (underlying store B, overlay L, pending
   deletes D), every command method and commit / rollback, over the TTL-map spec (C01 ties Memory to it; the
   overlay is a fresh Memory).  U is the finite universe of keys of the history (for pattern commands and for
   commit's iteration over the overlay).  Patterns are "prefix*".  Definitions only. *)
From Cashews Require Import Base.Prelude Spec.TTLMap Model.Tags.
Open Scope string_scope.
Open Scope Z_scope.

Record txn := { tB : tmap; tL : tmap; tD : list key }.
Definition tx_begin (b : tmap) : txn := {| tB := b; tL := empty; tD := [] |}.
Definition in_d (t : txn) (k : key) : bool := mems k (tD t).
Definition d_discard (d : list key) (k : key) : list key := filter (fun x => negb (String.eqb x k)) d.
Definition with_L (t : txn) (l : tmap) : txn := {| tB := tB t; tL := l; tD := tD t |}.
Definition with_LD (t : txn) (l : tmap) (d : list key) : txn := {| tB := tB t; tL := l; tD := d |}.

Inductive tcmd :=
| TC (c : cmd)                        (* the regular commands of Spec.TTLMap *)
| TDelMatch (p : string) | TScan (p : string) | TGetMatch (p : string).
Inductive tres := TR (r : res) | TKeys (ks : list key) | TPairs (kvs : list (key * val)).

(* merged reads *)
Definition tx_get (t : txn) now k : option val :=
  if in_d t k then None
  else match s_get (tL t) now k with Some v => Some v | None => s_get (tB t) now k end.
Definition tx_exists (t : txn) now k : bool :=
  if isSome (s_look (tL t) now k) then true else if in_d t k then false else isSome (s_look (tB t) now k).
Definition matches (p : string) (k : key) : bool := isSome (drop_prefix p k).

Definition tx_step (U : list key) (t : txn) (now : Z) (c : tcmd) : txn * tres :=
  match c with
  | TC (Get k) => (t, TR (RVal (tx_get t now k)))
  | TC (GetMany ks) => (t, TR (RVals (map (tx_get t now) ks)))
  | TC (Exists k) => (t, TR (RBool (tx_exists t now k)))
  | TC (Set_ k v ttl ex) =>
      match ex with
      | Some b => if Bool.eqb (tx_exists t now k) b
                  then (with_LD t (s_write (tL t) now k v ttl) (d_discard (tD t) k), TR (RBool true))
                  else (t, TR (RBool false))
      | None => (with_LD t (s_write (tL t) now k v ttl) (d_discard (tD t) k), TR (RBool true))
      end
  | TC (SetMany kvs ttl) =>
      (with_LD t (fold_left (fun m kv => s_write m now (fst kv) (snd kv) ttl) kvs (tL t))
                 (fold_left (fun d kv => d_discard d (fst kv)) kvs (tD t)), TR RUnit)
  | TC (Incr k by_ ttl) =>
      (* seed the overlay from the store unless the key is already there or pending delete *)
      let l1 := if negb (isSome (s_look (tL t) now k)) && negb (in_d t k)
                then s_write (tL t) now k (match s_get (tB t) now k with Some v => v | None => VInt 0 end) 0
                else tL t in
      match s_get l1 now k with
      | Some (VInt z) => let n := z + by_ in
                         (with_LD t (s_write l1 now k (VInt n) (if n =? 1 then ttl else 0)) (d_discard (tD t) k), TR (RInt n))
      | None => let n := by_ in
                (with_LD t (s_write l1 now k (VInt n) (if n =? 1 then ttl else 0)) (d_discard (tD t) k), TR (RInt n))
      | Some _ => (with_LD t l1 (d_discard (tD t) k), TR RErr)
      end
  | TC (Del k) => (with_LD t (upd (tL t) k None) (k :: tD t), TR (RBool true))
  | TC (DelMany ks) => (with_LD t (fold_left (fun m k => upd m k None) ks (tL t)) (ks ++ tD t), TR RUnit)
  | TC (Expire k ttl) =>
      match s_look (tL t) now k with
      | Some (_, v) => (with_L t (s_write (tL t) now k v ttl), TR RUnit)
      | None => if in_d t k then (t, TR RUnit)
                else match s_get (tB t) now k with
                     | Some v => (with_L t (s_write (tL t) now k v ttl), TR RUnit)
                     | None => (t, TR RUnit)
                     end
      end
  | TC (GetExpire k) =>
      (t, TR (RInt (if in_d t k then -2
                    else
                      let le := match s_look (tL t) now k with
                                | None => -2 | Some (Some d, _) => round_secs (d - now) | Some (None, _) => -1 end in
                      if 0 <=? le then le
                      else let be := match s_look (tB t) now k with
                                     | None => -2 | Some (Some d, _) => round_secs (d - now) | Some (None, _) => -1 end in
                           if (be =? -2) && (le =? -1) then -1 else be)))
  | TC Clear => ({| tB := empty; tL := empty; tD := [] |}, TR RUnit)
  | TC Sweep => (t, TR RUnit)
  | TDelMatch p =>
      (with_LD t (fold_left (fun m k => if matches p k then upd m k None else m) U (tL t))
                 (filter (fun k => matches p k && isSome (s_look (tB t) now k)) U ++ tD t), TR RUnit)
  | TScan p =>
      (t, TKeys (filter (fun k => matches p k && tx_exists t now k) U))
  | TGetMatch p =>
      (t, TPairs (flat_map (fun k => if matches p k then match tx_get t now k with Some v => [(k, v)] | None => [] end else []) U))
  end.

(* commit: delete_many of the pending deletes, then every overlay entry written with its remaining lifetime
   (entries whose lifetime is over are skipped); the overlay is iterated over the universe U *)
Definition tx_commit (U : list key) (t : txn) (now : Z) : tmap :=
  let b1 := fold_left (fun m k => upd m k None) (tD t) (tB t) in
  fold_left (fun m k => match tL t k with
                        | Some (Some d, v) => if 0 <? d - now then s_write m now k v (d - now) else m
                        | Some (None, v) => s_write m now k v 0
                        | None => m
                        end) U b1.
Definition tx_rollback (t : txn) : tmap := tB t.

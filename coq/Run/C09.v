From Cashews Require Import Base.Prelude Model.Serializer Run.SerTables.
Open Scope string_scope.

(* value stored and read back through set/get and set_many/get_many under one configuration *)
Inductive case :=
| CRt (c : cfg) (key : string) (v : val) (dt : dtable) (lt : ltable) (mt : mtable) (ct : ctable)
      (stored_obs : stored) (r_get r_many : dres).

Definition judge (c : case) : verdict :=
  match c with
  | CRt c key v dt lt mt ct so rg rm =>
      let st := encode (t_dumps dt) (t_mac mt) (t_cenc ct) c key v in
      let r := fst (decode (t_loads lt) (t_mac mt) (t_cdec ct) c key st) in
      (stored_eqb st so && dres_eqb r rg && dres_eqb r rm, dres_eqb (DVal v) rg && dres_eqb (DVal v) rm, [])
  end.
Definition explain (c : case) :=
  match c with
  | CRt c key v dt lt mt ct _ _ _ =>
      let st := encode (t_dumps dt) (t_mac mt) (t_cenc ct) c key v in (st, fst (decode (t_loads lt) (t_mac mt) (t_cdec ct) c key st))
  end.

#!/bin/sh
# tools/try_mutant_wt.sh <mutant dir with patch.diff demo.py> <PROP> [more props...]
# like try_mutant.sh but on a scratch worktree under /tmp (never touches /repo): safe while other checks run on /repo
D="$1"; shift
WT="/tmp/trial_$$"
git -C /repo worktree add -q --detach "$WT" HEAD || exit 2
trap 'git -C /repo worktree remove --force "$WT" >/dev/null 2>&1; rm -rf "$WT"; git -C /repo worktree prune' EXIT
echo "== demo on clean tree"; PYTHONPATH="$WT" /venv/bin/python "$D/demo.py" >/tmp/demo_clean.$$ 2>&1; echo "exit $?"; tail -1 /tmp/demo_clean.$$
git -C "$WT" apply "$D/patch.diff" || { echo "patch does not apply"; exit 2; }
echo "== demo on mutated tree"; PYTHONPATH="$WT" /venv/bin/python "$D/demo.py" >/tmp/demo_mut.$$ 2>&1; echo "exit $?"; tail -2 /tmp/demo_mut.$$
for P in "$@"; do
  echo "== check $P on mutated tree"; (cd "$(dirname "$0")/.." && VERIF_REPO="$WT" ./check "$P" --no-obligations 2>&1 | tail -3)
done
rm -f /tmp/demo_clean.$$ /tmp/demo_mut.$$

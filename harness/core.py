"""Generic check driver: obligations (coqc + Print Assumptions), correspondence
(implementation vs Gallina model evaluated by vm_compute), oracle search, shrinking,
known findings, evidence.  One property module per check (harness/props/cXX.py)."""
from __future__ import annotations

import concurrent.futures as cf
import json
import os
import random
import re
import shutil
import subprocess
import sys
import time
from time import time as _real_time  # captured before harness.vclock rebinds time.time

VERIF = os.path.dirname(os.path.dirname(os.path.abspath(__file__)))
COQ = os.path.join(VERIF, "coq")
BUILD = os.path.join(VERIF, "build")
REPO = os.environ.get("VERIF_REPO", "/repo")
FORBIDDEN = re.compile(
    r"\b(Admitted|admit|Axiom|Axioms|Parameter|Parameters|Conjecture|Admit Obligations)\b|Unset Guard|bypass_check|type-in-type|impredicative-set|Unset Universe Checking|Unset Positivity"
)


# ----------------------------------------------------------------------------- Coq terms
class Z:
    def __init__(self, n): self.n = int(n)
class N:
    def __init__(self, n): self.n = int(n)
class Nat:
    def __init__(self, n): self.n = int(n)
class S:
    """python str -> Coq string (pooled); must be printable ASCII, else use Sb"""
    def __init__(self, s): self.s = s
class Some:
    def __init__(self, x): self.x = x
class C:
    def __init__(self, name, *args): self.name, self.args = name, args
class Raw:
    def __init__(self, t): self.t = t


class Printer:
    def __init__(self):
        self.pool: dict[str, str] = {}
        self.defs: list[str] = []

    def string(self, s: str) -> str:
        if s in self.pool:
            return self.pool[s]
        name = f"s_{len(self.pool)}"
        self.pool[s] = name
        if all(32 <= ord(ch) < 127 for ch in s):
            lit = '"' + s.replace('"', '""') + '"%string'
        else:  # arbitrary bytes / code points < 256
            lit = "(" + "".join(f'String (Ascii.ascii_of_N {ord(ch)}%N) (' for ch in s) + "EmptyString" + ")" * len(s) + ")"
        self.defs.append(f"Definition {name} : string := {lit}.")
        return name

    def p(self, x) -> str:
        if isinstance(x, bool): return "true" if x else "false"
        if x is None: return "None"
        if isinstance(x, Z): return f"({x.n})%Z"
        if isinstance(x, N): return f"{x.n}%N"
        if isinstance(x, Nat): return f"{x.n}%nat"
        if isinstance(x, S): return self.string(x.s)
        if isinstance(x, Some): return f"(Some {self.p(x.x)})"
        if isinstance(x, Raw): return x.t
        if isinstance(x, list): return "[" + "; ".join(self.p(e) for e in x) + "]"
        if isinstance(x, tuple): return "(" + ", ".join(self.p(e) for e in x) + ")"
        if isinstance(x, C):
            if not x.args: return x.name
            return "(" + x.name + " " + " ".join(self.p(a) for a in x.args) + ")"
        raise TypeError(f"cannot print {x!r} ({type(x)}) as a Coq term; wrap ints in Z/N/Nat")


def _coqc(path: str, timeout: int = 600) -> tuple[int, str]:
    pr = subprocess.run(["timeout", str(timeout), "coqc", "-Q", COQ, "Cashews", "-w", "-notation-overridden,-deprecated-hint-without-locality", path],
                        capture_output=True, text=True, cwd=os.path.dirname(path))
    return pr.returncode, pr.stdout + pr.stderr


class CaseTermError(RuntimeError):
    def __init__(self, index, msg):
        super().__init__(msg)
        self.index = index


def eval_cases(prop_id: str, run_module: str, terms: list, judge: str = "judge", shard: int = 400,
               tag: str = "cases", extra: str | None = None) -> tuple[list[tuple[int, bool, bool, list[int]]], list[str]]:
    """Evaluate `judge` on every case term inside Coq (vm_compute); returns the failing
    cases as (index, agree, ok, exclusions) and raw outputs of `extra` (per shard)."""
    trial = os.environ.get("VERIF_REPO", "/repo") != "/repo"     # trial runs on a scratch tree may overlap a regular run of the same property
    # one directory per process: two runs of the same check at the same time (another seed, the other tier, a trial) never share files
    d = os.path.join(BUILD, "cases", prop_id, f"{tag}_{'trial' if trial else 'run'}{os.getpid()}")
    shutil.rmtree(d, ignore_errors=True)
    os.makedirs(d)
    if trial:
        import atexit
        atexit.register(shutil.rmtree, d, True)      # whatever way the trial ends, its generated files go
    files = []
    first_case_line = {}
    for si in range(0, len(terms), shard):
        pr = Printer()
        body = []
        chunk = terms[si:si + shard]
        for i, t in enumerate(chunk):
            body.append(f"Definition c_{i} : case := {pr.p(t)}.")
        body.append("Definition cases : list case := [" + "; ".join(f"c_{i}" for i in range(len(chunk))) + "].")
        src = [f"From Cashews Require Import Base.Prelude {run_module}.", "Set Printing Width 1000000.", "Set Printing Depth 1000000."]
        first_case_line[si] = len(src) + sum(d.count("\n") + 1 for d in pr.defs) + 1      # where `Definition c_0` lands in the file
        src += pr.defs + body
        src.append(f"Eval vm_compute in (failing {judge} cases).")
        if extra:
            src.append(f"Eval vm_compute in (map {extra} cases).")
        path = os.path.join(d, f"shard_{si // shard}.v")
        with open(path, "w") as f:
            f.write("\n".join(src) + "\n")
        files.append((si, path))
    fails, extras = [], []

    def one(job):
        si, path = job
        rc, out = _coqc(path)
        return si, path, rc, out
    with cf.ThreadPoolExecutor(max_workers=min(12, os.cpu_count() or 4)) as ex:
        for si, path, rc, out in ex.map(one, files):
            if rc != 0:
                # a term that does not type-check: an observation outside the domain of the model's types (the pinned tree never produces one)
                m_ = re.search(r'line (\d+), characters', out)
                idx = si + (int(m_.group(1)) - first_case_line[si]) if m_ else None
                raise CaseTermError(idx if idx is not None and si <= idx < si + shard else None, f"coqc failed on {path} (rc={rc}):\n{out[-3000:]}")
            m = re.findall(r"=\s*(.*?)\n\s*:\s", out, re.S)
            if not m:
                raise RuntimeError(f"cannot parse coqc output of {path}:\n{out[-2000:]}")
            lst = re.sub(r"%\w+", "", m[0]).replace("\n", " ").replace(";", ",")
            for row in json.loads(lst) if lst.strip() != "[]" else []:
                fails.append((si + row[0], bool(row[1]), bool(row[2]), list(row[3:])))
            if extra and len(m) > 1:
                extras.append(m[1])
    if trial:
        shutil.rmtree(d, ignore_errors=True)
    return fails, extras


# ----------------------------------------------------------------------------- obligations
# axioms declared by Coq's standard library that a development may rely on when it names them in its trusted base
STDLIB_AXIOMS = {"FunctionalExtensionality.functional_extensionality_dep"}


def check_obligations(prop_id: str, allowed_axioms=()) -> dict:
    """make (no-op if up to date), forbidden-token scan, then re-run coqc on the property
    file and read `Print Assumptions` for every theorem."""
    t0 = _real_time()
    res = {"obligations": 0, "discharged": 0, "axioms": [], "errors": []}
    if not os.path.exists(os.path.join(COQ, "Makefile")):
        subprocess.run(["coq_makefile", "-f", "_CoqProject", "-o", "Makefile"], cwd=COQ, capture_output=True)
    pr = subprocess.run(["timeout", "3000", "make", "-j16"], cwd=COQ, capture_output=True, text=True)
    if pr.returncode != 0:
        res["errors"].append("coq build failed: " + (pr.stdout + pr.stderr)[-1500:])
        return res
    for root, _, fs in os.walk(COQ):
        for fn in fs:
            if fn.endswith(".v"):
                txt = open(os.path.join(root, fn)).read()
                txt = re.sub(r"\(\*.*?\*\)", "", txt, flags=re.S)
                m = FORBIDDEN.search(txt)
                if m:
                    res["errors"].append(f"forbidden token {m.group(0)!r} in {fn}")
    pf = os.path.join(COQ, "Properties", f"{prop_id}.v")
    src = open(pf).read()
    theorems = re.findall(r"^\s*Theorem\s+(\w+)", src, re.M)
    res["obligations"] = len(theorems)
    res["theorems"] = theorems
    rc, out = _coqc(pf)
    if rc != 0:
        res["errors"].append("property file does not check: " + out[-1500:])
        return res
    closed = out.count("Closed under the global context")
    names, ok_blocks, cur = set(), 0, None
    allowed = STDLIB_AXIOMS & set(allowed_axioms)

    def close(cur):
        return 1 if cur and cur <= allowed else 0
    for line in out.splitlines():          # one result per Print Assumptions: "Closed ..." or "Axioms:" + entries
        if line.strip() == "Axioms:":
            ok_blocks += close(cur); cur = set()
        elif line.startswith("Closed under the global context"):
            ok_blocks += close(cur); cur = None
        elif cur is not None and line and not line[0].isspace():
            nm = line.split(":")[0].strip()
            cur.add(nm); names.add(nm)
    ok_blocks += close(cur)
    res["axioms"] = sorted(names)
    npa = len(re.findall(r"^\s*Print Assumptions\s+(\w+)", src, re.M))
    if npa < len(theorems):
        res["errors"].append("a theorem lacks its Print Assumptions")
    res["discharged"] = min(closed + ok_blocks, len(theorems))
    bad = names - (STDLIB_AXIOMS & set(allowed_axioms))
    if bad:
        res["errors"].append("theorem depends on axioms outside the property's declared trusted base: " + "; ".join(sorted(bad))[:500])
    res["wall_s"] = round(_real_time() - t0, 2)
    return res


# ----------------------------------------------------------------------------- known findings
def load_findings(prop_id: str) -> dict[int, str]:
    """open findings of this property: {numeric id: text}"""
    out = {}
    p = os.path.join(VERIF, "KNOWN_FINDINGS.txt")
    if os.path.exists(p):
        for line in open(p):
            m = re.match(r"open:\s+property=(\w+)\s+F(\d+)\s+(.*)", line.strip())
            if m and m.group(1) == prop_id:
                out[int(m.group(2))] = m.group(3)
    return out


# ----------------------------------------------------------------------------- driver
class _Hang(BaseException):       # not an Exception: code under test that swallows `Exception` (suppression) must not swallow it
    pass


def _escape(pid, case, what):
    """the implementation did something no observation format of the harness can express (on the pinned tree every
    generated case runs and converts): reported as a violation with that case as the replay"""
    import traceback
    os.makedirs(os.path.join(VERIF, "replays"), exist_ok=True)
    path = os.path.join(VERIF, "replays", f"{pid}_escape.json")
    json.dump({"property": pid, "kind": "violation", "note": what, "case": case, "traceback": traceback.format_exc()[-3000:],
               "replay_cmd": f"./check {pid} --replay {path}"}, open(path, "w"), indent=1)
    print(f"VIOLATION property={pid} replay={path}")
    sys.exit(1)


def _term(prop, pid, case, obs):
    try:
        return prop.to_coq(case, obs)
    except Exception:  # noqa
        _escape(pid, case, "the observation of this case cannot be expressed as a term of the model (a value or event kind the pinned tree never produces)")


def _try_run(prop, case, limit=60):
    """run one candidate of the search for a smaller failing case; None when it raises or does not finish (the candidate is
    then simply not used: the case it was derived from has already been observed)"""
    import signal

    def on_alarm(_s, _f):
        raise _Hang()
    old = signal.signal(signal.SIGALRM, on_alarm)
    signal.setitimer(signal.ITIMER_REAL, limit, 5)
    try:
        obs = prop.run_impl(case)
        return obs, prop.to_coq(case, obs)
    except (Exception, _Hang):  # noqa
        return None
    finally:
        signal.setitimer(signal.ITIMER_REAL, 0)
        signal.signal(signal.SIGALRM, old)


def _guarded(prop, pid, case, limit=90):
    """run one case on the implementation; a case that does not finish within `limit` s of real time is reported as a
    violation with that case as the replay (on the unchanged tree a case takes milliseconds)"""
    import signal

    def on_alarm(_s, _f):
        raise _Hang()
    old = signal.signal(signal.SIGALRM, on_alarm)
    signal.setitimer(signal.ITIMER_REAL, limit, 5)      # fires again every 5 s should a handler of the code under test swallow it
    try:
        return prop.run_impl(case)
    except Exception:  # noqa - an exception the harness does not expect from the code under test
        _escape(pid, case, "running the case on the implementation raised an exception the harness does not know from the pinned tree")
    except _Hang:
        os.makedirs(os.path.join(VERIF, "replays"), exist_ok=True)
        path = os.path.join(VERIF, "replays", f"{pid}_hang.json")
        json.dump({"property": pid, "kind": "violation", "note": f"the implementation did not finish this case within {limit} s (it takes milliseconds on the pinned tree)",
                   "case": case, "replay_cmd": f"./check {pid} --replay {path}"}, open(path, "w"), indent=1)
        print(f"VIOLATION property={pid} replay={path}")
        sys.exit(1)
    finally:
        signal.setitimer(signal.ITIMER_REAL, 0)
        signal.signal(signal.SIGALRM, old)


def run(prop, argv=None) -> int:
    import argparse
    ap = argparse.ArgumentParser()
    ap.add_argument("--tier", default=os.environ.get("VERIF_TIER", "quick"))
    ap.add_argument("--seed", type=int, default=int(os.environ.get("VERIF_SEED", "0") or 0))
    ap.add_argument("--replay")
    ap.add_argument("--no-obligations", action="store_true")
    a = ap.parse_args(argv)
    pid = prop.ID
    t0 = _real_time()
    sys.path.insert(0, REPO)
    os.makedirs(os.path.join(VERIF, "replays"), exist_ok=True)
    os.makedirs(os.path.join(VERIF, "evidence"), exist_ok=True)

    if a.replay:
        rp = json.load(open(a.replay))
        case = rp["case"]
        obs = prop.run_impl(case)
        fails, extras = eval_cases(pid, prop.RUN_MODULE, [prop.to_coq(case, obs)], tag="replay", extra=getattr(prop, "EXPLAIN", None))
        print("case:", json.dumps(case))
        print("implementation now:", json.dumps(obs))
        print("model/spec:", extras[0] if extras else "")
        print("verdict:", "agree+ok" if not fails else {"agree": fails[0][1], "ok": fails[0][2], "known": fails[0][3]})
        return 0 if not fails else 1

    rng = random.Random(a.seed)
    violations: list[str] = []
    known_lines: list[str] = []
    ob = {"obligations": 0, "discharged": 0, "errors": [], "axioms": []}
    if not a.no_obligations:
        ob = check_obligations(pid, getattr(prop, "ALLOWED_AXIOMS", ()))

    # --- correspondence -------------------------------------------------------------
    corpus = []
    cdir = os.path.join(VERIF, "corpus", pid)
    if os.path.isdir(cdir):
        for fn in sorted(os.listdir(cdir)):
            if fn.endswith(".json"):
                corpus.append(json.load(open(os.path.join(cdir, fn)))["case"])
    gen = prop.gen_cases(rng, a.tier)
    cases = corpus + gen
    stats: dict = {}
    t_impl = _real_time()
    observed = [_guarded(prop, pid, c) for c in cases]
    t_impl = _real_time() - t_impl
    t_coq = _real_time()
    terms = [_term(prop, pid, c, o) for c, o in zip(cases, observed)]
    try:
        fails, _ = eval_cases(pid, prop.RUN_MODULE, terms)
    except CaseTermError as e:
        _escape(pid, cases[e.index] if e.index is not None and e.index < len(cases) else None,
                "the observation of a case is outside the domain of the model's types (the generated term does not type-check; on the pinned tree every case does): " + str(e)[-600:])
    t_coq = _real_time() - t_coq
    nontrivial = set()
    for c, o in zip(cases, observed):
        if prop.nontrivial(c, o):
            nontrivial.add(json.dumps(c, sort_keys=True))
        for k, v in prop.classify(c, o).items():
            stats[k] = stats.get(k, 0) + v

    open_findings = load_findings(pid)
    disagreements = [f for f in fails if not f[1]]
    spec_fail = [f for f in fails if not f[2]]

    def evaluate(cs):
        """candidates of the search for a smaller failing case: one that cannot be run, expressed or type-checked is left out"""
        good = []
        for c in cs:
            r = _try_run(prop, c)
            if r is not None:
                good.append((c, r[0], r[1]))
        while good:
            try:
                fl, _ = eval_cases(pid, prop.RUN_MODULE, [t for _, _, t in good], tag="search")
                break
            except CaseTermError as e:
                if e.index is None or not (0 <= e.index < len(good)):
                    return []
                del good[e.index]
        else:
            return []
        d = {i: (ag, ok, ex) for i, ag, ok, ex in fl}
        return [(c, o) + d.get(i, (True, True, [])) for i, (c, o, _) in enumerate(good)]

    def shrink(case, pred, orig=None):
        """greedy shrink keeping pred(agree, ok, excl) true; prefers candidates free of known situations.
        orig = the tuple already known for `case`, used when the case cannot be evaluated again"""
        cur = case
        first = evaluate([case])
        last = first[0] if first else orig
        for _ in range(40):
            cands = list(prop.shrink(cur))[:120]
            if not cands:
                break
            ev = [e for e in evaluate(cands) if pred(e[2], e[3], e[4])]
            if not ev:
                break
            ev.sort(key=lambda e: (len([x for x in e[4] if x in open_findings]) > 0, len(json.dumps(e[0]))))
            cur = ev[0][0]
            last = ev[0]
        return last

    def write_replay(kind, c, o, ag, ok, ex, note):
        n = len(os.listdir(os.path.join(VERIF, "replays")))
        path = os.path.join(VERIF, "replays", f"{pid}_{kind}_{n}.json")
        try:
            _, extras = eval_cases(pid, prop.RUN_MODULE, [prop.to_coq(c, o)], tag="explain", extra=getattr(prop, "EXPLAIN", None))
        except Exception:  # noqa - the replay is written without the model's account of the case
            extras = None
        json.dump({"property": pid, "kind": kind, "note": note, "case": c, "observed_on_implementation": o,
                   "model_and_spec_say": extras[0] if extras else None, "agree": ag, "ok": ok, "known_situations": ex,
                   "replay_cmd": f"./check {pid} --replay {path}"}, open(path, "w"), indent=1)
        return path

    reported_known = set()
    handled = 0
    # 1. spec failures (oracle false on the implementation's own behaviour)
    seen_shrunk = set()

    def is_known(ex_):
        return [x for x in ex_ if x in open_findings]

    def report_known(hit):
        for x in hit:
            if x not in reported_known:
                reported_known.add(x)
                known_lines.append(f"KNOWN-FINDING: property={pid} F{x:02d} {open_findings[x]}")

    def hidden_violation(case):
        """a failing case that contains a recorded situation: look (two rounds of reductions) for a failing
        reduction that contains none - a different violation hiding behind the known one"""
        frontier = [case]
        for _ in range(2):
            cands = []
            for c_ in frontier:
                cands += list(prop.shrink(c_))[:60]
            if not cands:
                return None
            ev = evaluate(cands[:150])
            clean = [e for e in ev if not e[3] and not is_known(e[4])]
            if clean:
                return clean[0]
            frontier = [e[0] for e in ev if not e[3]][:3]
            if not frontier:
                return None
        return None

    spec_fail_sorted = sorted(spec_fail, key=lambda f: len(json.dumps(cases[f[0]])))
    deep = 0
    for idx, ag, ok, ex in spec_fail_sorted:
        if violations:
            break
        if is_known(ex):
            if deep < 6:
                deep += 1
                hv = hidden_violation(cases[idx])
                if hv is None:
                    report_known(is_known(ex))
                    continue
                start, orig = hv[0], hv
            else:
                report_known(is_known(ex))
                continue
        else:
            start, orig = cases[idx], (cases[idx], observed[idx], ag, ok, ex)
        c, o, ag2, ok2, ex2 = shrink(start, lambda ag_, ok_, ex_: not ok_, orig)
        key = json.dumps(c, sort_keys=True)
        if key in seen_shrunk:
            continue
        seen_shrunk.add(key)
        hit = is_known(ex2)
        if hit:
            report_known(hit)
            continue
        path = write_replay("violation", c, o, ag2, ok2, ex2, "the implementation's observed behaviour fails the property oracle on this case")
        violations.append(f"VIOLATION property={pid} replay={path}")
    # 2. correspondence broken but the oracle holds everywhere explored
    if not violations and disagreements:
        # neighbourhood search for a failing input around the smallest disagreeing cases
        found = None
        smallest = None
        for idx, ag, ok, ex in disagreements[:5]:
            if smallest is None:
                smallest = (cases[idx], observed[idx], ag, ok, ex)
            c, o, ag2, ok2, ex2 = shrink(cases[idx], lambda ag_, ok_, ex_: not ag_, (cases[idx], observed[idx], ag, ok, ex))
            smallest = (c, o, ag2, ok2, ex2) if idx == disagreements[0][0] else smallest
            neigh = list(prop.neighbours(c, rng))[:400] if hasattr(prop, "neighbours") else []
            for e in evaluate(neigh) if neigh else []:
                if not e[3] and not [x for x in e[4] if x in open_findings]:
                    found = shrink(e[0], lambda ag_, ok_, ex_: not ok_, e)
                    break
            if found:
                break
        if found and not [x for x in found[4] if x in open_findings]:
            path = write_replay("violation", *found, "found by neighbourhood search around a model/implementation disagreement")
            violations.append(f"VIOLATION property={pid} replay={path}")
        else:
            path = write_replay("correspondence", *smallest,
                                f"correspondence obligation Run.{pid}.judge (model = implementation) no longer checks; theorems in Properties/{pid}.v are about the model and no longer cover this code")
            violations.append(f"VIOLATION property={pid} replay={path} no-failing-input-found")
    # 3. proof obligations
    if ob["errors"] or (not a.no_obligations and ob["discharged"] < ob["obligations"]):
        path = os.path.join(VERIF, "replays", f"{pid}_obligations.json")
        json.dump({"property": pid, "kind": "obligation", "errors": ob["errors"], "theorems": ob.get("theorems")}, open(path, "w"), indent=1)
        if not violations:
            violations.append(f"VIOLATION property={pid} replay={path} no-failing-input-found")

    wall = _real_time() - t0
    samples = [{"case": cases[i], "observed": observed[i]} for i in range(len(corpus), min(len(cases), len(corpus) + 3))]
    ev = {
        "property_id": pid, "tier": a.tier if a.tier in ("quick", "thorough") else "quick", "seed": a.seed, "level": "proof",
        "coverage": {
            "obligations": ob["obligations"], "discharged": ob["discharged"],
            "checker_cmd": f"coqc -Q coq Cashews coq/Properties/{pid}.v (after make in coq/); Print Assumptions per theorem",
            "trusted_base": prop.TRUSTED_BASE,
            "theorems": ob.get("theorems", []),
            "axioms_reported": ob["axioms"],
            "evaluations": len(cases), "distinct_nontrivial": len(nontrivial), "rule": prop.RULE,
            "traces_validated_against_impl": len(cases) - len(disagreements),
            "disagreements": len(disagreements), "oracle_failures": len(spec_fail),
            "corpus_cases": len(corpus), "samples": samples, "input_distribution": stats,
            "exhaustive": bool(getattr(prop, "EXHAUSTIVE", {}).get(a.tier, False)) and bool(getattr(prop, "exhaustive_ok", lambda: True)()),
            "enumeration": getattr(prop, "enumeration_report", lambda: None)(),
            "timing_s": {"implementation": round(t_impl, 2), "coq_vm_compute": round(t_coq, 2), "obligations": ob.get("wall_s")},
        },
        "assumptions": prop.ASSUMPTIONS, "wall_s": round(wall, 2), "violations": len(violations),
        "known_findings_reported": sorted(reported_known),
    }
    evdir = os.path.join(VERIF, "evidence")
    if a.no_obligations or REPO != "/repo":  # development / mutant trial runs never overwrite the committed evidence
        evdir = os.path.join(BUILD, "evidence_scratch")
        os.makedirs(evdir, exist_ok=True)
    json.dump(ev, open(os.path.join(evdir, f"{pid}.json"), "w"), indent=1)
    for l in known_lines: print(l)
    for l in violations: print(l)
    print(f"{pid}: obligations {ob['discharged']}/{ob['obligations']}, cases {len(cases)} (nontrivial distinct {len(nontrivial)}), "
          f"disagreements {len(disagreements)}, oracle failures {len(spec_fail)}, {wall:.1f}s")
    if not violations:      # the generated case files (hundreds of MB in the thorough tier) are only of use when something failed
        for tag in ("cases", "search", "explain", "replay"):      # (only this process's own directories: other runs may be going on beside this one)
            shutil.rmtree(os.path.join(BUILD, "cases", pid, f"{tag}_run{os.getpid()}"), ignore_errors=True)
    return 1 if violations else 0

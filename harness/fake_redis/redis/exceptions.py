class RedisError(Exception):
    pass


class ConnectionError(RedisError):  # noqa: A001
    pass


class TimeoutError(RedisError):  # noqa: A001
    pass


class ResponseError(RedisError):
    pass


class NoScriptError(ResponseError):
    pass

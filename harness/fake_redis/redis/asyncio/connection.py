from ..server import server_for


class ConnectionPool:
    def __init__(self, url="redis://localhost", **kwargs):
        self.url = url
        self.kwargs = kwargs
        self.server = server_for(url)

    @classmethod
    def from_url(cls, url, **kwargs):
        return cls(url, **kwargs)

    async def disconnect(self, inuse_connections=True):
        return None


class BlockingConnectionPool(ConnectionPool):
    pass

"""C17: longest-prefix routing, multi-key re-assembly, disabling, task-local control."""
import asyncio
import itertools

from harness import vclock
from harness.core import C, Nat, S, Some
from harness.memrun import val_to_coq

ID = "C17"
RUN_MODULE = "Model.Router Run.C17"
EXPLAIN = "explain"
PREFIXES = ["", "a", "ab", "b", "a:", "-", "abc", "b:"]
KEYCH = ["a", "b", "c", ":", "-"]
RULE = ("(route) sets of 1-4 prefixes from {'', a, ab, b, a:, -, abc, b:} registered in random order (re-registration included) x keys of "
        "length 0-4 over {a,b,c,:,-} x a command; observed: which Memory instance received it; (many) get_many/set_many/delete_many (some requested keys holding a bit field instead of a value) over keys "
        "spanning backends incl. duplicates; (disabled) every facade command with the cache / a prefix / a command disabled by disable(), "
        "disabling() or setup(enable=False): backend touched? raised? result shape; (decor) execution counters of cached functions under "
        "disabling, called one after the other and overlapping in time; (ctl) enable/disable/query sequences across parent and child asyncio tasks. non-trivial: >= 2 registered prefixes match the "
        "key / keys span >= 2 backends / the command is disabled / a child task toggles")
TRUSTED_BASE = ["Coq 8.16.1 kernel + vm_compute", "hand-written model coq/Model/Router.v tied by this differential run",
                "contextvars copy-at-task-creation rule is modelled (asyncio), validated by the ctl cases",
                "Python str ordering = code point order on ASCII"]
ASSUMPTIONS = ["ASCII prefixes and keys", "backends' own get_many is positional (C01)", "enable_by_default = True"]
EXHAUSTIVE = {"quick": False, "thorough": True}

CMDS = ["get", "get_many", "set", "set_many", "delete", "delete_many", "delete_match", "scan", "get_match", "exists", "incr", "expire",
        "get_expire", "clear", "get_keys_count", "set_lock", "unlock", "is_locked", "get_bits", "incr_bits", "slice_incr", "set_add",
        "set_remove", "set_pop", "ping", "get_size", "set_raw", "get_raw"]
ROUTE_CMDS = ["get", "set", "delete", "exists", "incr", "expire", "get_expire", "scan", "get_match", "delete_match", "set_lock", "get_bits", "set_add",
              "unlock", "is_locked", "incr_bits", "slice_incr", "set_remove", "set_pop", "get_size", "set_raw", "get_raw"]      # every key-routed command of the facade


def _key(rng):
    return "".join(rng.choice(KEYCH) for _ in range(rng.randint(0, 4)))


class _Own(Exception):
    """the decorated function's own failure"""


def gen_cases(rng, tier):
    cases = []
    n = 500 if tier == "quick" else 3000
    for _ in range(n):
        regs = [rng.choice(PREFIXES) for _ in range(rng.randint(1, 4))]
        cases.append({"kind": "route", "regs": regs, "key": _key(rng), "cmd": rng.choice(ROUTE_CMDS)})
    if tier == "thorough":
        keys = [""] + ["".join(p) for n_ in (1, 2, 3) for p in itertools.product(["a", "b", ":", "-"], repeat=n_)]
        for r in range(1, 4):
            for regs in itertools.permutations(PREFIXES[:6], r):
                for k in keys:
                    cases.append({"kind": "route", "regs": list(regs), "key": k, "cmd": "get"})
    for _ in range(200 if tier == "quick" else 1500):
        regs = rng.sample(PREFIXES, rng.randint(1, 4))
        if rng.random() < 0.8 and "" not in regs:
            regs.append("")
        pool = [k for k in (_key(rng) for _ in range(12)) if any(k.startswith(p) for p in regs)]
        if not pool:
            continue
        stored = {k: rng.choice([1, 2, "x", "y"]) for k in pool if rng.random() < 0.7}
        ks = [rng.choice(pool) for _ in range(rng.randint(1, 6))]
        via = rng.choice(["get_many", "get_many", "set_many", "delete_many"])
        bits = [k for k in sorted(set(ks)) if rng.random() < 0.25] if via == "get_many" and rng.random() < 0.4 else []     # keys that hold a bit field, not a value
        cases.append({"kind": "many", "regs": regs, "stored": stored, "keys": ks, "via": via, "bits": bits})
        cases.append({"kind": "manyw", "regs": regs, "stored": stored, "dels": [rng.choice(pool) for _ in range(rng.randint(0, 5))],
                      "sets": sorted({rng.choice(pool) for _ in range(rng.randint(0, 4))})})
    for cmd in CMDS:
        for how in ["full", "cmd", "disabling", "disabling_cmd", "setup", "prefix", "enabled", "other_cmd"]:
            if how == "prefix" and cmd == "ping":
                continue  # ping is routed by its message, not by the key: it reaches the other (enabled) backend
            cases.append({"kind": "disabled", "cmd": cmd, "how": how})
    for cmd in ["delete_tags"]:      # composite facade commands (built from several backend commands): never raise because of disabling either
        for how in ["full", "disabling", "setup", "enabled"]:
            cases.append({"kind": "disabled", "cmd": cmd, "how": how})
    for how in ["full", "get", "set", "none", "disabling", "late_full"]:      # late_full: one call while enabled (its result is stored), then disable(): the stored result must not be served
        for deco in ["cache", "early", "soft", "hit"]:
            cases.append({"kind": "decor", "how": how, "deco": deco, "calls": 3})
            if how in ("full", "disabling"):      # the same calls overlapping in time: a disabled cache must not merge them either
                cases.append({"kind": "decor", "how": how, "deco": deco, "calls": 3, "conc": True})
    for how in ["full", "get", "set", "none", "disabling", "late_full"]:      # the iterator decorator: every call runs the generator while reads (or everything) are disabled
        cases.append({"kind": "decor", "how": how, "deco": "iterator", "calls": 3})
    for deco in ["cache", "early", "soft", "hit"]:      # ANOTHER backend (registered under a prefix the function's keys do not have) is disabled: nothing changes for this one
        cases.append({"kind": "decor", "how": "other_disabled", "deco": deco, "calls": 3})
    for how in ["full", "disabling"]:      # limiters and the breaker count nothing when the cache is disabled: every call runs, a failing function's own exception reaches the caller
        for deco in ["breaker_raise", "rate", "slide", "breaker"]:
            cases.append({"kind": "decor", "how": how, "deco": deco, "calls": 3})
    for how in ["full", "disabling"]:      # the lock decorators guard nothing when the cache is disabled, and never refuse a call
        for deco in ["locked", "locked_nowait"]:
            cases.append({"kind": "decor", "how": how, "deco": deco, "calls": 3})
    for _ in range(120 if tier == "quick" else 1500):
        ops, tasks = [], [0]
        for _ in range(rng.randint(3, 14)):
            r = rng.random()
            t = rng.choice(tasks)
            cm = rng.sample(range(6), rng.choice([0, 1, 1, 2]))
            if r < 0.25: ops.append(["disable", t, cm])
            elif r < 0.4: ops.append(["enable", t, cm])
            elif r < 0.55 and len(tasks) < 5:
                ops.append(["spawn", t, len(tasks)]); tasks.append(len(tasks))
            elif r < 0.78: ops.append(["query", t, cm])
            elif r < 0.92: ops.append(["scoped", t, cm, rng.random() < 0.6, rng.sample(range(6), rng.choice([0, 1, 2]))])   # with disabling(...): query; maybe raise
            else: ops.append(["full", t])
        cases.append({"kind": "ctl", "ops": ops})
    return cases


CTL_CMDS = ["get", "set", "delete", "incr", "exists", "get_many"]


async def _issue(cache, cmd, key="k1", exact=False):
    """issue one facade command with a recognisable default; returns canonical result class"""
    D = "<default>"
    if exact:
        return await _issue_exact(cache, cmd, key)
    if cmd == "get": r = await cache.get(key, default=D); return "default" if r == D else "none" if r is None else "value"
    if cmd == "get_many":
        r = await cache.get_many(key, key + "x", default=D)
        return ["defaults", len(r)] if all(x == D for x in r) and isinstance(r, tuple) else "value"
    if cmd == "set": r = await cache.set(key, 1)
    elif cmd == "set_many": r = await cache.set_many({key: 1})
    elif cmd == "delete": r = await cache.delete(key)
    elif cmd == "delete_many": r = await cache.delete_many(key)
    elif cmd == "delete_match": r = await cache.delete_match(key + "*")
    elif cmd == "scan":
        r = [k async for k in cache.scan(key + "*")]; return "empty" if r == [] else "value"
    elif cmd == "get_match":
        r = [k async for k in cache.get_match(key + "*")]; return "empty" if r == [] else "value"
    elif cmd == "exists": r = await cache.exists(key)
    elif cmd == "incr": r = await cache.incr(key + ":n")
    elif cmd == "expire": r = await cache.expire(key, 10)
    elif cmd == "get_expire": r = await cache.get_expire(key)
    elif cmd == "clear": r = await cache.clear()
    elif cmd == "get_keys_count":
        r = await cache.get_keys_count(); return "zero" if r == 0 and r is not False else "value"
    elif cmd == "set_lock": r = await cache.set_lock(key + ":l", "tok", expire=10)
    elif cmd == "unlock": r = await cache.unlock(key + ":l", "tok")
    elif cmd == "is_locked": r = await cache.is_locked(key + ":l")
    elif cmd == "get_bits": r = await cache.get_bits(key + ":b", 1, 2)
    elif cmd == "incr_bits": r = await cache.incr_bits(key + ":b", 1)
    elif cmd == "slice_incr": r = await cache.slice_incr(key + ":s", 0, 10, maxvalue=5, expire=10)
    elif cmd == "set_add": r = await cache.set_add(key + ":set", "m")
    elif cmd == "set_remove": r = await cache.set_remove(key + ":set", "m")
    elif cmd == "set_pop": r = await cache.set_pop(key + ":set")
    elif cmd == "ping": r = await cache.ping()
    elif cmd == "get_size": r = await cache.get_size(key)
    elif cmd == "set_raw": r = await cache.set_raw(key, 5)
    elif cmd == "get_raw": r = await cache.get_raw(key)
    elif cmd == "delete_tags": r = await cache.delete_tags(key)
    else: raise KeyError(cmd)
    return "none" if r is None else "value"


async def _issue_exact(cache, cmd, key):
    if cmd == "get": await cache.get(key)
    elif cmd == "set": await cache.set(key, 1)
    elif cmd == "delete": await cache.delete(key)
    elif cmd == "exists": await cache.exists(key)
    elif cmd == "incr": await cache.incr(key)
    elif cmd == "expire": await cache.expire(key, 10)
    elif cmd == "get_expire": await cache.get_expire(key)
    elif cmd == "scan": [k async for k in cache.scan(key)]
    elif cmd == "get_match": [k async for k in cache.get_match(key)]
    elif cmd == "delete_match": await cache.delete_match(key)
    elif cmd == "set_lock": await cache.set_lock(key, "t", expire=5)
    elif cmd == "get_bits": await cache.get_bits(key, 1)
    elif cmd == "set_add": await cache.set_add(key, "m")
    elif cmd == "unlock": await cache.unlock(key, "a")            # the token is itself a plausible key: routing must go by the key
    elif cmd == "is_locked": await cache.is_locked(key)
    elif cmd == "incr_bits": await cache.incr_bits(key, 1)
    elif cmd == "slice_incr": await cache.slice_incr(key, 0, 10, maxvalue=5, expire=10)
    elif cmd == "set_remove": await cache.set_remove(key, "b")
    elif cmd == "set_pop": await cache.set_pop(key)
    elif cmd == "get_size": await cache.get_size(key)
    elif cmd == "set_raw": await cache.set_raw(key, 5)
    elif cmd == "get_raw": await cache.get_raw(key)
    else: raise KeyError(cmd)


def _spy(backend, log, idx):
    from cashews.commands import Command
    for cmd in {c.value for c in Command}:
        orig = getattr(backend, cmd, None)
        if orig is None:
            continue

        def mk(orig, cmd):
            def w(*a, **k):
                log.append([idx, cmd])
                return orig(*a, **k)
            return w
        setattr(backend, cmd, mk(orig, cmd))


def run_impl(case):
    kind = case["kind"]

    async def go():
        from cashews import Cache
        from cashews.commands import Command
        from cashews.exceptions import NotConfiguredError
        cache = Cache()
        log = []
        try:
            if kind in ("route", "many", "manyw"):
                backs = []
                for i, p in enumerate(case["regs"]):
                    b = cache.setup("mem://?check_interval=0", prefix=p)
                    backs.append(b)
                    _spy(b, log, i)
                await cache.init()
                del log[:]
                if kind == "route":
                    try:
                        await _issue(cache, case["cmd"], case["key"], exact=True)
                    except NotConfiguredError:
                        return {"backend": None, "err": None}
                    touched = sorted({i for i, _ in log})
                    return {"backend": touched[0] if len(touched) == 1 else -1 - len(touched), "err": None}
                if kind == "manyw":
                    for k, v in case["stored"].items():
                        await cache.set(k, v)
                    before = [[i, [[k, b.store[k][1]] for k in b.store]] for i, b in enumerate(backs)]
                    if case["dels"]:
                        await cache.delete_many(*case["dels"])
                    if case["sets"]:
                        await cache.set_many({k: "new:" + k for k in case["sets"]})
                    after = [[i, [[k, b.store[k][1]] for k in b.store]] for i, b in enumerate(backs)]
                    return {"before": before, "after": after}
                # many
                route = {}
                for k, v in case["stored"].items():
                    await cache.set(k, v)
                for k in case.get("bits", []):      # a bit field (bloom filter data) under a requested key: not a value, the answer stays one per key
                    await cache.delete(k)
                    await cache.incr_bits(k, 1, 3)
                del log[:]
                if case["via"] == "set_many":
                    await cache.set_many({k: "new:" + k for k in case["keys"]})
                elif case["via"] == "delete_many":
                    await cache.delete_many(*case["keys"])
                out = await cache.get_many(*case["keys"], default="<default>")
                from cashews.utils import Bitarray
                stores = [[i, [[k, b.store[k][1]] for k in b.store if not isinstance(b.store[k][1], Bitarray)]] for i, b in enumerate(backs)]
                return {"out": list(out), "stores": stores}
            if kind == "disabled":
                how, cmd = case["how"], case["cmd"]
                if how == "setup":
                    b = cache.setup("mem://?check_interval=0", enable=False)
                elif how == "prefix":
                    b = cache.setup("mem://?check_interval=0", prefix="k")
                    cache.setup("mem://?check_interval=0", prefix="")
                else:
                    b = cache.setup("mem://?check_interval=0")
                await cache.init()
                await b.set("k1", "stored"); await b.set("k1x", "stored")
                _spy(b, log, 0)
                C_ = None if cmd == "delete_tags" else Command(cmd) if cmd != "exists" else Command.EXISTS
                other = Command.GET if C_ is not Command.GET else Command.SET
                disabled = how not in ("enabled", "other_cmd") and not (how == "prefix" and cmd == "ping")
                res, raised = None, False
                try:
                    if how == "full": cache.disable()
                    elif how == "cmd": cache.disable(C_)
                    elif how == "other_cmd": cache.disable(other)
                    elif how == "prefix": cache.disable(prefix="k")
                    if how == "disabling":
                        with cache.disabling():
                            res = await _issue(cache, cmd)
                    elif how == "disabling_cmd":
                        with cache.disabling(C_):
                            res = await _issue(cache, cmd)
                    else:
                        res = await _issue(cache, cmd)
                except Exception as e:  # noqa
                    raised = type(e).__name__
                called = any(c == C_.value for _, c in log) if C_ is not None else bool(log)      # composite: any backend command at all
                return {"disabled": disabled, "res": res, "called": called, "raised": raised}
            if kind == "decor":
                cache.setup("mem://?check_interval=0")
                await cache.init()
                n = {"n": 0}
                deco = {"cache": cache(ttl=100), "early": cache.early(ttl=100, early_ttl=50), "soft": cache.soft(ttl=100, soft_ttl=50),
                        "hit": cache.hit(ttl=100, cache_hits=10), "failover": None,
                        "locked": cache.locked(ttl=10), "locked_nowait": cache.locked(ttl=10, wait=False),
                        "breaker": cache.circuit_breaker(errors_rate=50, period=10, ttl=10), "breaker_raise": cache.circuit_breaker(errors_rate=50, period=10, ttl=10),
                        "rate": cache.rate_limit(limit=1, period=10), "slide": cache.slice_rate_limit(limit=1, period=10),
                        "iterator": cache.iterator(ttl=100)}[case["deco"]]
                if deco is None:
                    return {"execs": case["calls"], "skip": True}

                if case["deco"] == "iterator":
                    @deco
                    async def g(x):
                        n["n"] += 1
                        yield n["n"]
                        yield -1

                    async def f(x):      # consume the whole generator: a run that delivers nothing is a call that did not execute
                        got = [it async for it in g(x)]
                        if len(got) != 2:
                            raise RuntimeError("incomplete run")
                        return got[0]
                else:
                    f = None

                async def f_plain(x):
                    n["n"] += 1
                    if case.get("conc"):
                        await asyncio.sleep(0); await asyncio.sleep(0)
                    if case["deco"] == "breaker_raise":
                        raise _Own()
                    return n["n"]
                if f is None:
                    f = deco(f_plain)

                async def calls():
                    if case.get("conc"):
                        await asyncio.gather(*[f(1) for _ in range(case["calls"])])
                    else:
                        for _ in range(case["calls"]):
                            try:
                                await f(1)
                            except _Own:
                                pass
                            except Exception:  # noqa - a refused call did not execute; a call that ends with an exception of the cache's making did not deliver
                                n["bad"] = n.get("bad", 0) + 1
                how = case["how"]
                if how == "other_disabled":
                    cache.setup("mem://?check_interval=0", prefix="off:")
                    cache.disable(prefix="off:")
                if how == "full": cache.disable()
                elif how == "get": cache.disable(Command.GET)
                elif how == "set": cache.disable(Command.SET)
                if how == "late_full":
                    await f(1)
                    cache.disable()
                    for _ in range(case["calls"] - 1): await f(1)
                elif how == "disabling":
                    with cache.disabling():
                        await calls()
                else:
                    await calls()
                return {"execs": n["n"] if not n.get("bad") else min(n["n"], case["calls"] - n["bad"])}
            if kind == "ctl":
                b = cache.setup("mem://?check_interval=0")
                await cache.init()
                cmds = [Command(c) for c in CTL_CMDS]
                queues, outs, tasks = {}, [], {}

                async def worker(tid):
                    q = queues[tid]
                    while True:
                        op, fut = await q.get()
                        if op is None:
                            fut.set_result(None); return
                        o = op[0]
                        sel = [cmds[i] for i in op[2]] if len(op) > 2 and isinstance(op[2], list) else []
                        if o == "disable": cache.disable(*sel); fut.set_result(None)
                        elif o == "enable": cache.enable(*sel); fut.set_result(None)
                        elif o == "query": fut.set_result(bool(cache.is_disable(*sel)))
                        elif o == "scoped":
                            inner = None
                            try:
                                with cache.disabling(*sel):
                                    inner = bool(cache.is_disable(*[cmds[i] for i in op[4]]))
                                    if op[3]:
                                        raise RuntimeError("body of the disabling block fails")
                            except RuntimeError:
                                pass
                            fut.set_result(inner)
                        elif o == "full": fut.set_result(bool(cache.is_full_disable))
                        elif o == "spawn":
                            queues[op[2]] = asyncio.Queue()
                            tasks[op[2]] = asyncio.create_task(worker(op[2]))
                            fut.set_result(None)
                queues[0] = asyncio.Queue()
                tasks[0] = asyncio.create_task(worker(0))
                loop = asyncio.get_running_loop()
                for op in case["ops"]:
                    fut = loop.create_future()
                    await queues[op[1]].put((op, fut))
                    r = await fut
                    if op[0] in ("query", "full", "scoped"):
                        outs.append(r)
                for tid in list(queues):
                    fut = loop.create_future()
                    await queues[tid].put((None, fut)); await fut
                return {"outs": outs}
        finally:
            await cache.close()
    return vclock.run(go)


def to_coq(case, obs):
    kind = case["kind"]
    if kind == "route":
        regs = [(S(p), Nat(i)) for i, p in enumerate(case["regs"])]
        b = obs["backend"]
        return C("CRoute", regs, S(case["key"]), None if b is None else Some(Nat(b if b >= 0 else 900 - b)))
    if kind == "many":
        regs = [(S(p), Nat(i)) for i, p in enumerate(case["regs"])]
        stores = [(Nat(i), [(S(k), val_to_coq(v)) for k, v in kvs]) for i, kvs in obs["stores"]]
        out = [None if v == "<default>" else Some(val_to_coq(v)) for v in obs["out"]]
        return C("CMany", regs, stores, [S(k) for k in case["keys"]], out)
    if kind == "manyw":
        regs = [(S(p), Nat(i)) for i, p in enumerate(case["regs"])]
        st = lambda x: [(Nat(i), [(S(k), val_to_coq(v)) for k, v in kvs]) for i, kvs in x]
        return C("CManyW", regs, st(obs["before"]), [S(k) for k in case["dels"]], [(S(k), val_to_coq("new:" + k)) for k in case["sets"]], st(obs["after"]))
    if kind == "disabled":
        cmd = case["cmd"]
        k = C("KGet") if cmd == "get" else C("KGetMany", Nat(2)) if cmd == "get_many" else C("KPattern") if cmd in ("scan", "get_match") \
            else C("KKeysCount") if cmd == "get_keys_count" else C("KOther")
        r = obs["res"]
        if not obs["disabled"]:
            res = C("RBackend")
        elif r == "default": res = C("RDefault")
        elif isinstance(r, list): res = C("RDefaults", Nat(r[1]))
        elif r == "empty": res = C("REmptyIter")
        elif r == "none": res = C("RNone")
        elif r == "zero": res = C("RZero")
        else: res = C("RBackend")
        return C("CDisabled", k, obs["disabled"], res, bool(obs["called"]), bool(obs["raised"]))
    if kind == "decor":
        how = case["how"]
        return C("CDecor", how in ("full", "disabling", "late_full"), how == "get", how == "set", Nat(case["calls"]), Nat(obs["execs"]))
    if kind == "ctl":
        ops = []
        for op in case["ops"]:
            if op[0] == "disable": ops.append(C("ODisable", Nat(op[1]), [Nat(i) for i in op[2]]))
            elif op[0] == "enable": ops.append(C("OEnable", Nat(op[1]), [Nat(i) for i in op[2]]))
            elif op[0] == "spawn": ops.append(C("OSpawn", Nat(op[1]), Nat(op[2])))
            elif op[0] == "query": ops.append(C("OQuery", Nat(op[1]), [Nat(i) for i in op[2]]))
            elif op[0] == "scoped":      # with disabling(cmds): query - left normally or by an exception: disable, query, enable
                ops += [C("ODisable", Nat(op[1]), [Nat(i) for i in op[2]]), C("OQuery", Nat(op[1]), [Nat(i) for i in op[4]]), C("OEnable", Nat(op[1]), [Nat(i) for i in op[2]])]
            else: ops.append(C("OFull", Nat(op[1])))
        return C("CCtl", [Nat(i) for i in range(31)], ops, list(obs["outs"]))
    raise ValueError(kind)


def nontrivial(case, obs):
    k = case["kind"]
    if k == "route":
        return sum(1 for p in set(case["regs"]) if case["key"].startswith(p)) >= 2
    if k == "manyw":
        ks = case["dels"] + case["sets"]
        return len({max((p for p in case["regs"] if x.startswith(p)), key=len) for x in ks}) >= 2
    if k == "many":
        return len({max((p for p in case["regs"] if x.startswith(p)), key=len) for x in case["keys"]}) >= 2
    if k == "disabled":
        return obs["disabled"]
    if k == "decor":
        return case["how"] != "none"
    return any(op[0] == "spawn" for op in case["ops"])


def classify(case, obs):
    d = {"kind_" + case["kind"]: 1}
    if case["kind"] == "disabled":
        d["raised"] = int(bool(obs["raised"]))
    return d


def shrink(case):
    if case["kind"] == "ctl":
        ops = case["ops"]
        for i in range(len(ops)):
            if ops[i][0] != "spawn":
                c = dict(case); c["ops"] = ops[:i] + ops[i + 1:]; yield c
    elif case["kind"] == "route":
        for i in range(len(case["regs"])):
            c = dict(case); c["regs"] = case["regs"][:i] + case["regs"][i + 1:]
            if c["regs"]: yield c
    elif case["kind"] == "many":
        for i in range(len(case["keys"])):
            c = dict(case); c["keys"] = case["keys"][:i] + case["keys"][i + 1:]
            if c["keys"]: yield c

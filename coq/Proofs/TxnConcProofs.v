From Cashews Require Import Base.Prelude Model.TxnConc.
Open Scope Z_scope.

(* ---------- what one step of a task can do to the lock bookkeeping ---------- *)
Definition lk_of (t : task) : option (nat * list (nat * Z)) := option_map (fun x => (ttoken x, theld x)) (cur t).

Inductive lock_action (c : cfg) (i : nat) (c' : cfg) : Prop :=
| LA_same : now c' = now c -> locks c' = locks c -> fresh c' = fresh c -> lk_of (tasks c' i) = lk_of (tasks c i) -> lock_action c i c'
| LA_begin : now c' = now c -> locks c' = locks c -> fresh c' = S (fresh c) -> lk_of (tasks c i) = None ->
             lk_of (tasks c' i) = Some (fresh c, []) -> lock_action c i c'
| LA_acquire tk held lk : now c' = now c -> fresh c' = fresh c -> lk_of (tasks c i) = Some (tk, held) ->
             lock_free c lk = true -> heldb held lk = false ->
             locks c' = upd (locks c) lk (Some (tk, now c + timeout c)) ->
             lk_of (tasks c' i) = Some (tk, (lk, now c + timeout c) :: held) -> lock_action c i c'
| LA_release tk held lk : now c' = now c -> fresh c' = fresh c -> lk_of (tasks c i) = Some (tk, held) ->
             locks c' = (if match locks c lk with Some (tk', d) => Nat.eqb tk' tk && (now c <? d) | None => false end
                         then upd (locks c) lk None else locks c) ->
             lk_of (tasks c' i) = Some (tk, filter (fun h => negb (Nat.eqb (fst h) lk)) held) -> lock_action c i c'
| LA_finish tk : now c' = now c -> locks c' = locks c -> fresh c' = fresh c -> lk_of (tasks c i) = Some (tk, []) ->
             lk_of (tasks c' i) = None -> lock_action c i c'.

Lemma upd_same {A} (t : nat -> A) k v : upd t k v k = v.
Proof. unfold upd. rewrite Nat.eqb_refl. reflexivity. Qed.
Lemma upd_other {A} (t : nat -> A) k v j : j <> k -> upd t k v j = t j.
Proof. unfold upd. intro H. destruct (Nat.eqb_spec j k); [contradiction|reflexivity]. Qed.

Lemma run_task_frame c i h j : j <> i -> tasks (fst (run_task c i h)) j = tasks c j.
Proof.
  intro Hj. unfold run_task.
  destruct (now c <? wake (tasks c i)); [reflexivity|].
  destruct (cur (tasks c i)) as [x|].
  - destruct (tphase x) as [[|cm pend]| | |].
    + destruct (tfail x); [|destruct (braise (tblock x))]; cbn; apply upd_other; assumption.
    + destruct (match tmode x with Fast => false | _ => is_write cm && negb (heldb (theld x) (lock_key (tmode x) (cmd_key cm))) end).
      * destruct (lock_free c _); cbn; apply upd_other; assumption.
      * unfold body_cmd. destruct cm; cbn;
          repeat match goal with
                 | |- context[if ?b then _ else _] => destruct b
                 | |- context[match lookup ?a ?b with _ => _ end] => destruct (lookup a b)
                 | |- context[let '(_, _) := ?p in _] => destruct p
                 end; cbn; apply upd_other; assumption.
    + destruct (tdel x); cbn; apply upd_other; assumption.
    + destruct (tov x); cbn; apply upd_other; assumption.
    + destruct (theld x) as [|[lk0 d0] hr]; cbn; apply upd_other; assumption.
  - destruct (items (tasks c i)) as [|[cm|b] rest]; [reflexivity| |cbn; apply upd_other; assumption].
    unfold direct. destruct cm; cbn; apply upd_other; assumption.
Qed.

Ltac same_lk Hcur := apply LA_same; cbn; try reflexivity; unfold lk_of; rewrite ?upd_same, ?Hcur; cbn; try reflexivity.

Lemma run_task_lock_action c i h : lock_action c i (fst (run_task c i h)).
Proof.
  unfold run_task.
  destruct (now c <? wake (tasks c i)); [apply LA_same; reflexivity|].
  destruct (cur (tasks c i)) as [x|] eqn:Hcur.
  - destruct (tphase x) as [[|cm pend]| | |] eqn:Hph.
    + destruct (tfail x); [|destruct (braise (tblock x))]; same_lk Hcur.
    + destruct (match tmode x with Fast => false | _ => is_write cm && negb (heldb (theld x) (lock_key (tmode x) (cmd_key cm))) end) eqn:Hneed.
      * destruct (lock_free c _) eqn:Hfree.
        -- eapply (LA_acquire c i _ (ttoken x) (theld x) (lock_key (tmode x) (cmd_key cm))); cbn; try reflexivity.
           ++ unfold lk_of. rewrite Hcur. reflexivity.
           ++ exact Hfree.
           ++ destruct (tmode x); try discriminate; apply andb_true_iff in Hneed as [_ Hn]; apply negb_true_iff in Hn; exact Hn.
           ++ unfold lk_of. rewrite upd_same. reflexivity.
        -- apply LA_same; cbn; try reflexivity. unfold lk_of. rewrite upd_same, Hcur. cbn.
           destruct (match tbudget x with Some n => n | None => attempts c end) as [|[|n]]; reflexivity.
      * unfold body_cmd. destruct cm; cbn;
          repeat match goal with
                 | |- context[if ?b then _ else _] => destruct b
                 | |- context[match lookup ?a ?b with _ => _ end] => destruct (lookup a b)
                 | |- context[let '(_, _) := ?p in _] => destruct p
                 end; same_lk Hcur.
    + destruct (tdel x); same_lk Hcur.
    + destruct (tov x); same_lk Hcur.
    + destruct (theld x) as [|[lk0 d0] hr] eqn:Hh.
      * eapply (LA_finish c i _ (ttoken x)); cbn; try reflexivity; unfold lk_of; rewrite ?upd_same, ?Hcur; cbn; rewrite ?Hh; reflexivity.
      * rewrite <- Hh.
        eapply (LA_release c i _ (ttoken x) (theld x) (if heldb (theld x) h then h else lk0)); try reflexivity.
        -- unfold lk_of. rewrite Hcur. reflexivity.
        -- unfold lk_of. cbn [fst tasks]. rewrite upd_same. reflexivity.
  - destruct (items (tasks c i)) as [|[cm|b] rest]; [apply LA_same; reflexivity| |].
    + unfold direct. destruct cm; same_lk Hcur.
    + apply LA_begin; cbn; try reflexivity; unfold lk_of; rewrite ?upd_same, ?Hcur; reflexivity.
Qed.

(* ---------- the lock invariant ---------- *)
Definition LInv (c : cfg) : Prop :=
  (forall i tk held lk d, lk_of (tasks c i) = Some (tk, held) -> In (lk, d) held -> now c < d -> locks c lk = Some (tk, d)) /\
  (forall i tk held, lk_of (tasks c i) = Some (tk, held) -> (tk < fresh c)%nat) /\
  (forall i j tk held held', lk_of (tasks c i) = Some (tk, held) -> lk_of (tasks c j) = Some (tk, held') -> i = j) /\
  (forall lk tk d, locks c lk = Some (tk, d) -> (tk < fresh c)%nat).

Lemma heldb_in held lk d : In (lk, d) held -> heldb held lk = true.
Proof. intro H. unfold heldb. apply existsb_exists. exists (lk, d). split; [assumption|apply Nat.eqb_refl]. Qed.

Lemma linv_init progs st tmo att : LInv (init progs st tmo att).
Proof. unfold LInv, init, lk_of; cbn. repeat split; intros; discriminate. Qed.

Lemma linv_run_task c i h : LInv c -> LInv (fst (run_task c i h)).
Proof.
  intros (L1 & L2 & L3 & L4).
  pose proof (run_task_lock_action c i h) as A. pose proof (run_task_frame c i h) as F.
  set (c' := fst (run_task c i h)) in *.
  assert (Fl : forall j, j <> i -> lk_of (tasks c' j) = lk_of (tasks c j)) by (intros j Hj; unfold lk_of; rewrite F; auto).
  destruct A as [Hn Hl Hf Hi | Hn Hl Hf Hi Hi' | tk held lk Hn Hf Hi Hfree Hnh Hl Hi' | tk held lk Hn Hf Hi Hl Hi' | tk Hn Hl Hf Hi Hi'].
  - (* same *)
    assert (E : forall j, lk_of (tasks c' j) = lk_of (tasks c j)) by (intro j; destruct (Nat.eq_dec j i) as [->|]; auto).
    unfold LInv. rewrite Hn, Hl, Hf. repeat split; intros.
    + rewrite E in *. eauto.
    + rewrite E in *. eauto.
    + rewrite !E in *. eauto.
    + eauto.
  - (* begin *)
    unfold LInv. rewrite Hn, Hl, Hf. repeat split.
    + intros j tk held lk d Hj Hin Hlt. destruct (Nat.eq_dec j i) as [->|Hne].
      * rewrite Hi' in Hj. injection Hj as <- <-. destruct Hin.
      * rewrite Fl in Hj by assumption. eauto.
    + intros j tk held Hj. destruct (Nat.eq_dec j i) as [->|Hne].
      * rewrite Hi' in Hj. injection Hj as <- <-. lia.
      * rewrite Fl in Hj by assumption. specialize (L2 _ _ _ Hj). lia.
    + intros j1 j2 tk held held' H1 H2.
      destruct (Nat.eq_dec j1 i) as [->|N1], (Nat.eq_dec j2 i) as [->|N2]; try reflexivity.
      * rewrite Hi' in H1. injection H1 as <- <-. rewrite Fl in H2 by assumption. specialize (L2 _ _ _ H2). lia.
      * rewrite Hi' in H2. injection H2 as <- <-. rewrite Fl in H1 by assumption. specialize (L2 _ _ _ H1). lia.
      * rewrite Fl in H1, H2 by assumption. eauto.
    + intros lk tk d H. specialize (L4 _ _ _ H). lia.
  - (* acquire *)
    unfold LInv. rewrite Hn, Hl, Hf. repeat split.
    + intros j tk0 held0 lk0 d Hj Hin Hlt. destruct (Nat.eq_dec j i) as [->|Hne].
      * rewrite Hi' in Hj. injection Hj as <- <-. destruct Hin as [E|Hin].
        -- injection E as <- <-. apply upd_same.
        -- assert (lk0 <> lk) by (intros ->; rewrite (heldb_in _ _ _ Hin) in Hnh; discriminate).
           rewrite upd_other by assumption. eauto.
      * rewrite Fl in Hj by assumption. pose proof (L1 _ _ _ _ _ Hj Hin Hlt) as E.
        destruct (Nat.eq_dec lk0 lk) as [->|]; [|rewrite upd_other by assumption; exact E].
        unfold lock_free in Hfree. rewrite E in Hfree. apply Z.leb_le in Hfree. lia.
    + intros j tk0 held0 Hj. destruct (Nat.eq_dec j i) as [->|Hne].
      * rewrite Hi' in Hj. injection Hj as <- <-. eauto.
      * rewrite Fl in Hj by assumption. eauto.
    + intros j1 j2 tk0 h1 h2 H1 H2.
      assert (T : forall j tk1 h, lk_of (tasks c' j) = Some (tk1, h) -> exists h', lk_of (tasks c j) = Some (tk1, h')).
      { intros j tk1 h0 Hj. destruct (Nat.eq_dec j i) as [->|Hne].
        - rewrite Hi' in Hj. injection Hj as <- <-. eauto.
        - rewrite Fl in Hj by assumption. eauto. }
      destruct (T _ _ _ H1) as (? & E1), (T _ _ _ H2) as (? & E2). eauto.
    + intros lk0 tk0 d H. unfold upd in H. destruct (Nat.eqb lk0 lk); [|eauto]. injection H as <- <-. eauto.
  - (* release *)
    unfold LInv. rewrite Hn, Hf. repeat split.
    + intros j tk0 held0 lk0 d Hj Hin Hlt. destruct (Nat.eq_dec j i) as [->|Hne].
      * rewrite Hi' in Hj. injection Hj as <- <-. apply filter_In in Hin as [Hin Hk]. cbn in Hk.
        apply negb_true_iff, Nat.eqb_neq in Hk. pose proof (L1 _ _ _ _ _ Hi Hin Hlt) as E.
        rewrite Hl. destruct (match locks c lk with Some (tk', d0) => Nat.eqb tk' tk && (now c <? d0) | None => false end);
          [rewrite upd_other by assumption|]; exact E.
      * rewrite Fl in Hj by assumption. pose proof (L1 _ _ _ _ _ Hj Hin Hlt) as E. rewrite Hl.
        destruct (locks c lk) as [[tk' d0]|] eqn:Elk; [|exact E].
        destruct (Nat.eqb_spec tk' tk) as [->|]; cbn; [|exact E].
        destruct (now c <? d0); [|exact E].
        destruct (Nat.eq_dec lk0 lk) as [->|]; [|rewrite upd_other by assumption; exact E].
        rewrite Elk in E. injection E as -> _. exfalso. apply Hne. eapply L3; eauto.
    + intros j tk0 held0 Hj. destruct (Nat.eq_dec j i) as [->|Hne].
      * rewrite Hi' in Hj. injection Hj as <- <-. eauto.
      * rewrite Fl in Hj by assumption. eauto.
    + intros j1 j2 tk0 h1 h2 H1 H2.
      assert (T : forall j tk1 h, lk_of (tasks c' j) = Some (tk1, h) -> exists h', lk_of (tasks c j) = Some (tk1, h')).
      { intros j tk1 h0 Hj. destruct (Nat.eq_dec j i) as [->|Hne].
        - rewrite Hi' in Hj. injection Hj as <- <-. eauto.
        - rewrite Fl in Hj by assumption. eauto. }
      destruct (T _ _ _ H1) as (? & E1), (T _ _ _ H2) as (? & E2). eauto.
    + intros lk0 tk0 d H. rewrite Hl in H.
      destruct (match locks c lk with Some (tk', d0) => Nat.eqb tk' tk && (now c <? d0) | None => false end); [|eauto].
      unfold upd in H. destruct (Nat.eqb lk0 lk); [discriminate|eauto].
  - (* finish *)
    unfold LInv. rewrite Hn, Hl, Hf. repeat split.
    + intros j tk0 held0 lk0 d Hj Hin Hlt. destruct (Nat.eq_dec j i) as [->|Hne]; [rewrite Hi' in Hj; discriminate|].
      rewrite Fl in Hj by assumption. eauto.
    + intros j tk0 held0 Hj. destruct (Nat.eq_dec j i) as [->|Hne]; [rewrite Hi' in Hj; discriminate|].
      rewrite Fl in Hj by assumption. eauto.
    + intros j1 j2 tk0 h1 h2 H1 H2.
      destruct (Nat.eq_dec j1 i) as [->|N1]; [rewrite Hi' in H1; discriminate|].
      destruct (Nat.eq_dec j2 i) as [->|N2]; [rewrite Hi' in H2; discriminate|].
      rewrite Fl in H1, H2 by assumption. eauto.
    + eauto.
Qed.

Lemma linv_step c e : LInv c -> LInv (fst (step c e)).
Proof.
  destruct e as [i h|dt]; cbn [step]; [apply linv_run_task|].
  intros (L1 & L2 & L3 & L4). destruct (Z.leb_spec 0 dt); cbn [fst]; [|repeat split; assumption].
  unfold LInv; cbn. repeat split; eauto. intros i tk held lk d Hi Hin Hlt. eapply L1; eauto. lia.
Qed.

Lemma linv_run c evs : LInv c -> LInv (run_from c evs).
Proof. revert c. induction evs as [|e evs IH]; intros c H; cbn; [exact H|]. apply IH, linv_step, H. Qed.

(* for every schedule: two tasks holding the same lock key, both within the timeout they took it with, are one task *)
Theorem tx_lock_mutex progs st tmo att evs i j x y lk d d' :
  let c := run_from (init progs st tmo att) evs in
  cur (tasks c i) = Some x -> cur (tasks c j) = Some y -> In (lk, d) (theld x) -> In (lk, d') (theld y) ->
  now c < d -> now c < d' -> i = j.
Proof.
  intros c Hi Hj Hx Hy Hd Hd'. destruct (linv_run _ evs (linv_init progs st tmo att)) as (L1 & _ & L3 & _). fold c in L1, L3.
  assert (Ei : lk_of (tasks c i) = Some (ttoken x, theld x)) by (unfold lk_of; rewrite Hi; reflexivity).
  assert (Ej : lk_of (tasks c j) = Some (ttoken y, theld y)) by (unfold lk_of; rewrite Hj; reflexivity).
  pose proof (L1 _ _ _ _ _ Ei Hx Hd) as E1. pose proof (L1 _ _ _ _ _ Ej Hy Hd') as E2.
  rewrite E1 in E2. injection E2 as E _. rewrite E in Ei. eapply L3; eauto.
Qed.

(* ---------- overlay bookkeeping ---------- *)
Lemma lookup_remove ov k k' : lookup (remove ov k) k' = if Nat.eqb k' k then None else lookup ov k'.
Proof.
  unfold remove. induction ov as [|[a v] r IH]; cbn [filter lookup fst]; [destruct (Nat.eqb k' k); reflexivity|].
  destruct (Nat.eqb_spec a k) as [E|Hak]; cbn [negb lookup]; rewrite IH.
  - subst a. destruct (Nat.eqb_spec k' k) as [E|E]; [reflexivity|]. destruct (Nat.eqb_spec k k'); [congruence|reflexivity].
  - destruct (Nat.eqb_spec a k') as [E|E]; [|reflexivity]. subst a. destruct (Nat.eqb_spec k' k); [congruence|reflexivity].
Qed.
Lemma lookup_put ov k v k' : lookup (put ov k v) k' = if Nat.eqb k' k then Some v else lookup ov k'.
Proof.
  unfold put. cbn. rewrite lookup_remove. destruct (Nat.eqb_spec k k') as [->|]; [rewrite Nat.eqb_refl; reflexivity|].
  destruct (Nat.eqb_spec k' k); [congruence|reflexivity].
Qed.
Lemma memk_remk dl k k' : memk k' (remk dl k) = memk k' dl && negb (Nat.eqb k' k).
Proof.
  unfold memk, remk. induction dl as [|a r IH]; cbn [filter existsb]; [reflexivity|].
  destruct (Nat.eqb_spec a k) as [E|Hak]; cbn [negb existsb]; rewrite IH.
  - subst a. destruct (Nat.eqb_spec k' k) as [E|E]; cbn; [rewrite andb_false_r; reflexivity|]. reflexivity.
  - destruct (Nat.eqb_spec k' a) as [E|E]; cbn; [|reflexivity]. subst a. destruct (Nat.eqb_spec k' k); [congruence|reflexivity].
Qed.

Definition lkind (l : lcmd) : cmd := match l with LPut k v => Put k v | LIncr k d _ => Incr k d | LDel k => Del k | LPutIf k v w _ => PutIf k v w | LTouch k _ => Touch k end.
Definition lkey (l : lcmd) : nat := match l with LPut k _ | LIncr k _ _ | LDel k | LPutIf k _ _ _ | LTouch k _ => k end.
Definition pending (x : txn) : list cmd := match tphase x with PBody p => p | _ => [] end.
Definition touched (x : txn) (k : nat) : bool := match lookup (tov x) k with Some _ => true | None => memk k (tdel x) end.

(* what holds of the transaction a task is in, whatever the other tasks do *)
Definition TInv (x : txn) : Prop :=
  (* the overlay and the delete set are the local effect of the commands executed so far, nothing else *)
  (match tphase x with PUnlock => tov x = [] /\ tdel x = [] | _ => (tov x, tdel x) = fold_left lapply (texec x) ([], []) end) /\
  (* ... and those are the block's own write commands, in order *)
  (tfail x = None -> filter is_write (bcmds (tblock x)) = map lkind (texec x) ++ filter is_write (pending x)) /\
  (* a written key has its lock taken first (locked / serializable) *)
  (tmode x <> Fast -> forall k, touched x k = true -> heldb (theld x) (lock_key (tmode x) k) = true) /\
  (* only a body that ended normally reaches the commit *)
  (match tphase x with PCommitDel | PCommitSet => tfail x = None /\ braise (tblock x) = false | _ => True end) /\
  tmode x = bmode (tblock x) /\
  (* a body that still has commands to run has not failed *)
  (match tphase x with PBody (_ :: _) => tfail x = None | _ => True end).

Lemma lapply_touched ov dl l ov' dl' k : lapply (ov, dl) l = (ov', dl') ->
  (match lookup ov' k with Some _ => true | None => memk k dl' end) = true ->
  k = lkey l \/ (match lookup ov k with Some _ => true | None => memk k dl end) = true.
Proof.
  intros E H. destruct (Nat.eq_dec k (lkey l)) as [->|Hne]; [left; reflexivity|right].
  destruct l as [k0 v|k0 d b|k0|k0 v w [|]|k0 base]; cbn in E, Hne;
    [| | | | |destruct (lookup ov k0); [|destruct (memk k0 dl); [|destruct base as [[b|]|]]]]; injection E as <- <-; try exact H.
  - rewrite lookup_put in H. destruct (Nat.eqb_spec k k0); [contradiction|]. rewrite memk_remk in H.
    destruct (lookup ov k); [reflexivity|]. apply andb_true_iff in H as [H _]. exact H.
  - rewrite lookup_put in H. destruct (Nat.eqb_spec k k0); [contradiction|]. rewrite memk_remk in H.
    destruct (lookup ov k); [reflexivity|]. apply andb_true_iff in H as [H _]. exact H.
  - rewrite lookup_remove in H. destruct (Nat.eqb_spec k k0); [contradiction|].
    destruct (lookup ov k); [reflexivity|]. destruct (memk k0 dl); [exact H|].
    cbn in H. destruct (Nat.eqb_spec k k0); [contradiction|exact H].
  - rewrite lookup_put in H. destruct (Nat.eqb_spec k k0); [contradiction|]. rewrite memk_remk in H.
    destruct (lookup ov k); [reflexivity|]. apply andb_true_iff in H as [H _]. exact H.
  - rewrite lookup_put in H. destruct (Nat.eqb_spec k k0); [contradiction|exact H].
Qed.

Lemma tinv_write x l pend ov dl res bud :
  TInv x -> tphase x = PBody (lkind l :: pend) ->
  (tmode x = Fast \/ heldb (theld x) (lock_key (tmode x) (lkey l)) = true) ->
  lapply (tov x, tdel x) l = (ov, dl) ->
  TInv {| tmode := tmode x; ttoken := ttoken x; tphase := PBody pend; tov := ov; tdel := dl; theld := theld x; tbudget := bud;
          tres := res; tfail := tfail x; texec := texec x ++ [l]; tblock := tblock x |}.
Proof.
  intros (T1 & T2 & T3 & T4 & T5 & T6) Hph Hlock Hl. unfold TInv, pending, touched in *. rewrite Hph in *. cbn.
  repeat split.
  - rewrite fold_left_app. cbn. rewrite <- T1. symmetry. exact Hl.
  - intro Hf. rewrite (T2 Hf). rewrite map_app, <- app_assoc. cbn. destruct l; reflexivity.
  - intros Hm k Hk. destruct (lapply_touched _ _ _ _ _ k Hl Hk) as [->|Hold].
    + destruct Hlock; [contradiction|assumption].
    + apply T3; assumption.
  - exact T5.
  - destruct pend; [exact I|exact T6].
Qed.

Lemma tinv_skip x cm pend res bud : TInv x -> tphase x = PBody (cm :: pend) -> is_write cm = false ->
  TInv {| tmode := tmode x; ttoken := ttoken x; tphase := PBody pend; tov := tov x; tdel := tdel x; theld := theld x; tbudget := bud;
          tres := res; tfail := tfail x; texec := texec x; tblock := tblock x |}.
Proof.
  intros (T1 & T2 & T3 & T4 & T5 & T6) Hph Hw. unfold TInv, pending, touched in *. rewrite Hph in *. cbn. repeat split; try assumption.
  - intro Hf. rewrite (T2 Hf). cbn. rewrite Hw. reflexivity.
  - destruct pend; [exact I|exact T6].
Qed.

Lemma tinv_run_task c i h :
  (forall x, cur (tasks c i) = Some x -> TInv x) ->
  forall x', cur (tasks (fst (run_task c i h)) i) = Some x' -> TInv x'.
Proof.
  intros HT x'. unfold run_task.
  destruct (now c <? wake (tasks c i)); [apply HT|].
  destruct (cur (tasks c i)) as [x|] eqn:Hcur.
  - specialize (HT x eq_refl). pose proof HT as (T1 & T2 & T3 & T4 & T5 & T6).
    destruct (tphase x) as [[|cm pend]| | |] eqn:Hph.
    + (* end of the body *)
      destruct (tfail x) as [b|] eqn:Hf; [|destruct (braise (tblock x)) eqn:Hr]; cbn; rewrite upd_same; cbn; intros [= <-];
        unfold TInv, pending, touched in *; rewrite ?Hph in *; cbn.
      * repeat split; try assumption; try discriminate.
      * repeat split; try assumption; try discriminate.
      * repeat split; try assumption. intro H. rewrite (T2 eq_refl). reflexivity.
    + destruct (match tmode x with Fast => false | _ => is_write cm && negb (heldb (theld x) (lock_key (tmode x) (cmd_key cm))) end) eqn:Hneed.
      * destruct (lock_free c _).
        -- cbn. rewrite upd_same. cbn. intros [= <-]. unfold TInv, pending, touched in *. rewrite Hph in *. cbn.
           repeat split; try assumption. intros Hm k Hk. specialize (T3 Hm k Hk). unfold heldb in *. cbn. rewrite T3. apply orb_true_r.
        -- cbn. rewrite upd_same. cbn. intros [= <-].
           destruct (match tbudget x with Some n => n | None => attempts c end) as [|[|n]];
             unfold TInv, fail_with, pending, touched in *; rewrite ?Hph in *; cbn; repeat split; try assumption; try discriminate.
      * assert (Hlock : is_write cm = true -> tmode x = Fast \/ heldb (theld x) (lock_key (tmode x) (cmd_key cm)) = true).
        { intro Hw. rewrite Hw in Hneed. destruct (tmode x); [left; reflexivity| |];
            right; cbn in Hneed; apply negb_false_iff in Hneed; exact Hneed. }
        unfold body_cmd. destruct cm as [k|k v|k d|k|n|k v want|k].
        -- destruct (memk k (tdel x)); [|destruct (lookup (tov x) k)]; cbn; rewrite upd_same; cbn; intros [= <-];
             rewrite app_nil_r; eapply tinv_skip; eauto.
        -- destruct (lapply (tov x, tdel x) (LPut k v)) as [ov dl] eqn:El. cbn. rewrite upd_same. cbn. intros [= <-].
           eapply (tinv_write x (LPut k v)); eauto.
        -- set (base := if match lookup (tov x) k with Some _ => false | None => negb (memk k (tdel x)) end then Some (store c k) else None).
           destruct (lapply (tov x, tdel x) (LIncr k d base)) as [ov dl] eqn:El. cbn. rewrite upd_same. cbn. intros [= <-].
           eapply (tinv_write x (LIncr k d base)); eauto.
        -- destruct (lapply (tov x, tdel x) (LDel k)) as [ov dl] eqn:El. cbn. rewrite upd_same. cbn. intros [= <-].
           eapply (tinv_write x (LDel k)); eauto.
        -- cbn. rewrite upd_same. cbn. intros [= <-]. rewrite app_nil_r. eapply tinv_skip; eauto.
        -- set (hit := Bool.eqb (match (match lookup (tov x) k with Some _ => Some true | None => if memk k (tdel x) then Some false else None end) with
                                  | Some b => b | None => isSomeZ (store c k) end) want).
           destruct (lapply (tov x, tdel x) (LPutIf k v want hit)) as [ov dl] eqn:El. cbn. rewrite upd_same. cbn. intros [= <-].
           eapply (tinv_write x (LPutIf k v want hit)); eauto.
        -- set (base := if match lookup (tov x) k with Some _ => false | None => negb (memk k (tdel x)) end then Some (store c k) else None).
           destruct (lapply (tov x, tdel x) (LTouch k base)) as [ov dl] eqn:El. cbn. rewrite upd_same. cbn. intros [= <-].
           eapply (tinv_write x (LTouch k base)); eauto.
    + destruct (tdel x) eqn:Hd; cbn; rewrite upd_same; cbn; intros [= <-]; unfold TInv, pending, touched in *; rewrite ?Hph in *; cbn;
        rewrite <- Hd in T1 at 1; repeat split; try assumption; try apply T4.
    + destruct (tov x) eqn:Ho; cbn; rewrite upd_same; cbn; intros [= <-]; unfold TInv, pending, touched in *; rewrite ?Hph in *; cbn;
        rewrite <- Ho in T1 at 1; repeat split; try assumption; try (intros; discriminate); try (intro; rewrite (T2 H); reflexivity).
    + destruct (theld x) as [|[lk0 d0] hr]; cbn; rewrite upd_same; cbn; [discriminate|].
      intros [= <-]. unfold TInv, pending, touched in *; rewrite ?Hph in *; cbn. destruct T1 as [E1 E2]. rewrite E1, E2 in *. cbn.
      repeat split; try assumption; try reflexivity. intros _ k Hk. discriminate.
  - destruct (items (tasks c i)) as [|[cm|b] rest]; [cbn; rewrite Hcur; discriminate| |].
    + unfold direct. destruct cm; cbn; rewrite upd_same; cbn; discriminate.
    + cbn. rewrite upd_same. cbn. intros [= <-]. unfold TInv, pending, touched. cbn. repeat split; try reflexivity.
      * intros _ k Hk. discriminate.
      * destruct (bcmds b); [exact I|reflexivity].
Qed.

Definition TAll (c : cfg) : Prop := forall i x, cur (tasks c i) = Some x -> TInv x.

Lemma tall_init progs st tmo att : TAll (init progs st tmo att).
Proof. intros i x H. cbn in H. discriminate. Qed.

Lemma tall_step c e : TAll c -> TAll (fst (step c e)).
Proof.
  intros H. destruct e as [i h|dt]; cbn [step].
  - intros j x Hj. destruct (Nat.eq_dec j i) as [->|Hne].
    + eapply tinv_run_task; [|exact Hj]. intros x0 H0. eapply H; eauto.
    + rewrite run_task_frame in Hj by assumption. eapply H; eauto.
  - destruct (0 <=? dt); exact H.
Qed.

Lemma tall_run c evs : TAll c -> TAll (run_from c evs).
Proof. revert c. induction evs as [|e evs IH]; intros c H; cbn; [exact H|]. apply IH, tall_step, H. Qed.

(* ---------- what one step of a task can do to the store ---------- *)
Definition direct_store (st : nat -> option Z) (cm : cmd) : nat -> option Z :=
  match cm with
  | Put k v => upd st k (Some v)
  | Incr k d => upd st k (Some (match st k with Some b => b + d | None => d end))
  | Del k => upd st k None
  | PutIf k v want => if Bool.eqb (isSomeZ (st k)) want then upd st k (Some v) else st
  | _ => st
  end.

Inductive store_action (c : cfg) (i : nat) (c' : cfg) : Prop :=
| SA_same : store c' = store c -> wlog c' = wlog c -> store_action c i c'
| SA_direct cm rest : cur (tasks c i) = None -> items (tasks c i) = Direct cm :: rest -> is_write cm = true ->
    store c' = direct_store (store c) cm -> store_action c i c'
| SA_del x : cur (tasks c i) = Some x -> tphase x = PCommitDel -> tdel x <> [] ->
    store c' = (fun k => if memk k (tdel x) then None else store c k) ->
    wlog c' = wlog c ++ [(i, ttoken x, WDelMany, texec x)] -> store_action c i c'
| SA_set x : cur (tasks c i) = Some x -> tphase x = PCommitSet -> tov x <> [] ->
    store c' = (fun k => match lookup (tov x) k with Some v => Some v | None => store c k end) ->
    wlog c' = wlog c ++ [(i, ttoken x, WSetMany, texec x)] -> store_action c i c'.

Lemma run_task_store_action c i h : store_action c i (fst (run_task c i h)).
Proof.
  unfold run_task.
  destruct (now c <? wake (tasks c i)); [apply SA_same; reflexivity|].
  destruct (cur (tasks c i)) as [x|] eqn:Hcur.
  - destruct (tphase x) as [[|cm pend]| | |] eqn:Hph.
    + destruct (tfail x); [|destruct (braise (tblock x))]; apply SA_same; reflexivity.
    + destruct (match tmode x with Fast => false | _ => is_write cm && negb (heldb (theld x) (lock_key (tmode x) (cmd_key cm))) end).
      * destruct (lock_free c _); apply SA_same; reflexivity.
      * unfold body_cmd. destruct cm; cbn;
          repeat match goal with
                 | |- context[if ?b then _ else _] => destruct b
                 | |- context[match lookup ?a ?b with _ => _ end] => destruct (lookup a b)
                 | |- context[let '(_, _) := ?p in _] => destruct p
                 end; apply SA_same; reflexivity.
    + destruct (tdel x) eqn:Hd; [apply SA_same; reflexivity|].
      eapply (SA_del c i _ x); try reflexivity; try assumption; rewrite Hd; try discriminate; reflexivity.
    + destruct (tov x) eqn:Ho; [apply SA_same; reflexivity|].
      eapply (SA_set c i _ x); try reflexivity; try assumption; rewrite Ho; try discriminate; reflexivity.
    + destruct (theld x) as [|[lk0 d0] hr]; apply SA_same; reflexivity.
  - destruct (items (tasks c i)) as [|[cm|b] rest] eqn:Hit; [apply SA_same; reflexivity| |apply SA_same; reflexivity].
    unfold direct. destruct cm; try (apply SA_same; reflexivity);
      (eapply (SA_direct c i _ _ rest); [exact Hcur|exact Hit|reflexivity|reflexivity]).
Qed.

(* ---------- C05 (a): a transaction writes exactly its own writes, and only if its body ended normally ---------- *)
(* the store is written by a task inside a block only at its commit; what is written there is the overlay / delete set
   obtained by applying, in order, the local effects of the block's own write commands - all of them *)
Theorem tx_own_writes progs st tmo att evs i h x : let c := run_from (init progs st tmo att) evs in
  cur (tasks c i) = Some x ->
  let c' := fst (run_task c i h) in
  (store c' = store c) \/
  (tfail x = None /\ braise (tblock x) = false /\
   filter is_write (bcmds (tblock x)) = map lkind (texec x) /\
   let eff := fold_left lapply (texec x) ([], []) in
   ((tphase x = PCommitDel /\ store c' = (fun k => if memk k (snd eff) then None else store c k)) \/
    (tphase x = PCommitSet /\ store c' = (fun k => match lookup (fst eff) k with Some v => Some v | None => store c k end)))).
Proof.
  intros c Hcur c'. pose proof (tall_run _ evs (tall_init progs st tmo att)) as TA. fold c in TA.
  pose proof (TA _ _ Hcur) as (T1 & T2 & _ & T4 & _ & _).
  destruct (run_task_store_action c i h) as [Hs _|cm rest Hn|x0 Hc Hph Hd Hs _|x0 Hc Hph Ho Hs _]; subst c'.
  - left; assumption.
  - rewrite Hn in Hcur; discriminate.
  - rewrite Hc in Hcur. injection Hcur as ->. right. unfold pending in T2. rewrite Hph in *. destruct T4 as [Tf Tr].
    repeat split; try assumption. { rewrite (T2 Tf). cbn. apply app_nil_r. }
    left. split; [reflexivity|]. rewrite <- T1. exact Hs.
  - rewrite Hc in Hcur. injection Hcur as ->. right. unfold pending in T2. rewrite Hph in *. destruct T4 as [Tf Tr].
    repeat split; try assumption. { rewrite (T2 Tf). cbn. apply app_nil_r. }
    right. split; [reflexivity|]. rewrite <- T1. exact Hs.
Qed.

(* a block whose body raises, or that gave up waiting for a lock, never writes the store *)
Theorem tx_failed_writes_nothing progs st tmo att evs i h x : let c := run_from (init progs st tmo att) evs in
  cur (tasks c i) = Some x -> (tfail x <> None \/ braise (tblock x) = true) -> store (fst (run_task c i h)) = store c.
Proof.
  intros c Hcur Hbad. destruct (tx_own_writes progs st tmo att evs i h x Hcur) as [H|(Hf & Hr & _)]; [exact H|].
  destruct Hbad as [Hb|Hb]; [contradiction|congruence].
Qed.

(* ---------- C05 (b): a task outside any block acts on the store directly; no block captures its command ---------- *)
Theorem tx_no_capture c i h cm rest :
  cur (tasks c i) = None -> items (tasks c i) = Direct cm :: rest -> wake (tasks c i) <= now c ->
  let c' := fst (run_task c i h) in
  store c' = direct_store (store c) cm /\ (forall j, cur (tasks c' j) = cur (tasks c j)) /\ items (tasks c' i) = rest.
Proof.
  intros Hcur Hit Hw c'. unfold c', run_task. destruct (Z.ltb_spec (now c) (wake (tasks c i))); [lia|].
  rewrite Hcur, Hit. unfold direct.
  assert (F : forall t, forall j, cur (upd (tasks c) i t j) = if Nat.eqb j i then cur t else cur (tasks c j)).
  { intros t j. unfold upd. destruct (Nat.eqb j i); reflexivity. }
  destruct cm; cbn; (split; [reflexivity|]); (split; [|rewrite upd_same; reflexivity]);
    intro j; rewrite F; cbn; destruct (Nat.eqb_spec j i) as [->|]; congruence.
Qed.

(* ---------- C05 (d): serializable write phases ---------- *)
Lemma heldb_ex held lk : heldb held lk = true -> exists d, In (lk, d) held.
Proof.
  unfold heldb. intro H. apply existsb_exists in H as ([lk' d] & Hin & E). cbn in E. apply Nat.eqb_eq in E. subst. eauto.
Qed.

(* two tasks in serializable blocks that both have uncommitted writes (or are committing them), neither past the
   timeout of the global lock it took: impossible *)
Theorem tx_serial_phases progs st tmo att evs i j x y k k' : let c := run_from (init progs st tmo att) evs in
  cur (tasks c i) = Some x -> cur (tasks c j) = Some y -> tmode x = Serial -> tmode y = Serial ->
  touched x k = true -> touched y k' = true ->
  (forall d, In (O, d) (theld x) -> now c < d) -> (forall d, In (O, d) (theld y) -> now c < d) -> i = j.
Proof.
  intros c Hi Hj Mx My Tx Ty Lx Ly.
  pose proof (tall_run _ evs (tall_init progs st tmo att)) as TA. fold c in TA.
  destruct (TA _ _ Hi) as (_ & _ & Hx & _). destruct (TA _ _ Hj) as (_ & _ & Hy & _).
  assert (Nx : tmode x <> Fast) by (rewrite Mx; discriminate). assert (Ny : tmode y <> Fast) by (rewrite My; discriminate).
  specialize (Hx Nx k Tx). specialize (Hy Ny k' Ty). rewrite Mx in Hx. rewrite My in Hy. cbn in Hx, Hy.
  destruct (heldb_ex _ _ Hx) as (d & Dx). destruct (heldb_ex _ _ Hy) as (d' & Dy).
  eapply (tx_lock_mutex progs st tmo att evs i j x y O d d'); eauto.
Qed.

(* ---------- what one step of a task does to the data it carries ---------- *)
Inductive data_action (c : cfg) (i : nat) (c' : cfg) : Prop :=
| DA_keep x x' : store c' = store c -> wlog c' = wlog c -> cur (tasks c i) = Some x -> cur (tasks c' i) = Some x' ->
    tov x' = tov x -> tdel x' = tdel x -> texec x' = texec x -> (tphase x' = PUnlock <-> tphase x = PUnlock) ->
    tblock x' = tblock x -> data_action c i c'
| DA_out : store c' = store c -> wlog c' = wlog c -> cur (tasks c' i) = None -> data_action c i c'
| DA_begin x' b rest : store c' = store c -> wlog c' = wlog c -> cur (tasks c i) = None -> items (tasks c i) = Txn b :: rest ->
    cur (tasks c' i) = Some x' -> tov x' = [] -> tdel x' = [] -> texec x' = [] -> tblock x' = b -> data_action c i c'
| DA_direct cm rest : cur (tasks c i) = None -> cur (tasks c' i) = None -> items (tasks c i) = Direct cm :: rest -> is_write cm = true ->
    store c' = direct_store (store c) cm -> wlog c' = wlog c ++ [(i, O, WDirect, [match cm with Put k v => LPut k v | Incr k d => LIncr k d (Some (store c k)) | PutIf k v w => LPutIf k v w (Bool.eqb (isSomeZ (store c k)) w) | Touch k => LTouch k (Some (store c k)) | _ => LDel (cmd_key cm) end])] ->
    data_action c i c'
| DA_write x x' l pend : store c' = store c -> wlog c' = wlog c -> cur (tasks c i) = Some x -> cur (tasks c' i) = Some x' ->
    tphase x = PBody (lkind l :: pend) -> tphase x' = PBody pend ->
    (tov x', tdel x') = lapply (tov x, tdel x) l -> texec x' = texec x ++ [l] -> tblock x' = tblock x ->
    (forall k0 d base, l = LIncr k0 d base ->
        base = if match lookup (tov x) k0 with Some _ => false | None => negb (memk k0 (tdel x)) end then Some (store c k0) else None) ->
    (forall k0 base, l = LTouch k0 base ->
        base = if match lookup (tov x) k0 with Some _ => false | None => negb (memk k0 (tdel x)) end then Some (store c k0) else None) ->
    data_action c i c'
| DA_clear x x' : store c' = store c -> wlog c' = wlog c -> cur (tasks c i) = Some x -> cur (tasks c' i) = Some x' ->
    tov x' = [] -> tdel x' = [] -> tphase x' = PUnlock -> (tphase x = PCommitSet -> tov x = []) -> tblock x' = tblock x -> data_action c i c'
| DA_del x x' : cur (tasks c i) = Some x -> cur (tasks c' i) = Some x' -> tphase x = PCommitDel -> tphase x' = PCommitSet ->
    store c' = (fun k => if memk k (tdel x) then None else store c k) -> wlog c' = wlog c ++ [(i, ttoken x, WDelMany, texec x)] ->
    tov x' = tov x -> tdel x' = tdel x -> texec x' = texec x -> tblock x' = tblock x -> data_action c i c'
| DA_set x x' : cur (tasks c i) = Some x -> cur (tasks c' i) = Some x' -> tphase x = PCommitSet -> tphase x' = PUnlock ->
    store c' = (fun k => match lookup (tov x) k with Some v => Some v | None => store c k end) ->
    wlog c' = wlog c ++ [(i, ttoken x, WSetMany, texec x)] -> tov x' = [] -> tdel x' = [] -> tblock x' = tblock x -> data_action c i c'.

Ltac keep Hcur := eapply DA_keep; [reflexivity|reflexivity|exact Hcur|cbn; rewrite upd_same; reflexivity|reflexivity|reflexivity|reflexivity| |reflexivity].

Lemma run_task_data_action c i h : data_action c i (fst (run_task c i h)) \/ fst (run_task c i h) = c.
Proof.
  unfold run_task.
  destruct (now c <? wake (tasks c i)); [right; reflexivity|]. left.
  destruct (cur (tasks c i)) as [x|] eqn:Hcur.
  - destruct (tphase x) as [[|cm pend]| | |] eqn:Hph.
    + destruct (tfail x); [|destruct (braise (tblock x))].
      * eapply DA_clear; [reflexivity|reflexivity|exact Hcur|cbn; rewrite upd_same; reflexivity|reflexivity|reflexivity|reflexivity|congruence|reflexivity].
      * eapply DA_clear; [reflexivity|reflexivity|exact Hcur|cbn; rewrite upd_same; reflexivity|reflexivity|reflexivity|reflexivity|congruence|reflexivity].
      * keep Hcur. cbn. rewrite Hph. split; discriminate.
    + destruct (match tmode x with Fast => false | _ => is_write cm && negb (heldb (theld x) (lock_key (tmode x) (cmd_key cm))) end).
      * destruct (lock_free c _).
        -- keep Hcur. cbn. rewrite Hph. split; discriminate.
        -- destruct (match tbudget x with Some n => n | None => attempts c end) as [|[|n]]; keep Hcur; cbn; rewrite Hph; split; discriminate.
      * unfold body_cmd. destruct cm as [k|k v|k d|k|n|k v want|k].
        -- destruct (memk k (tdel x)); [|destruct (lookup (tov x) k)]; (eapply DA_keep;
             [reflexivity|reflexivity|exact Hcur|cbn; rewrite upd_same; reflexivity|reflexivity|reflexivity|cbn; apply app_nil_r|cbn; rewrite Hph; split; discriminate|reflexivity]).
        -- destruct (lapply (tov x, tdel x) (LPut k v)) as [ov dl] eqn:El.
           eapply (DA_write c i _ x _ (LPut k v) pend); [reflexivity|reflexivity|exact Hcur|cbn; rewrite upd_same; reflexivity|exact Hph|reflexivity|cbn [tov tdel]; symmetry; exact El|reflexivity|reflexivity|discriminate|discriminate].
        -- set (base := if match lookup (tov x) k with Some _ => false | None => negb (memk k (tdel x)) end then Some (store c k) else None).
           destruct (lapply (tov x, tdel x) (LIncr k d base)) as [ov dl] eqn:El.
           eapply (DA_write c i _ x _ (LIncr k d base) pend); [reflexivity|reflexivity|exact Hcur|cbn; rewrite upd_same; reflexivity|exact Hph|reflexivity|cbn [tov tdel]; symmetry; exact El|reflexivity|reflexivity| |discriminate].
           intros k0 d0 b0 [= <- <- <-]. reflexivity.
        -- destruct (lapply (tov x, tdel x) (LDel k)) as [ov dl] eqn:El.
           eapply (DA_write c i _ x _ (LDel k) pend); [reflexivity|reflexivity|exact Hcur|cbn; rewrite upd_same; reflexivity|exact Hph|reflexivity|cbn [tov tdel]; symmetry; exact El|reflexivity|reflexivity|discriminate|discriminate].
        -- eapply DA_keep; [reflexivity|reflexivity|exact Hcur|cbn; rewrite upd_same; reflexivity|reflexivity|reflexivity|cbn; apply app_nil_r|cbn; rewrite Hph; split; discriminate|reflexivity].
        -- set (hit := Bool.eqb (match (match lookup (tov x) k with Some _ => Some true | None => if memk k (tdel x) then Some false else None end) with
                                  | Some b => b | None => isSomeZ (store c k) end) want).
           destruct (lapply (tov x, tdel x) (LPutIf k v want hit)) as [ov dl] eqn:El.
           eapply (DA_write c i _ x _ (LPutIf k v want hit) pend); [reflexivity|reflexivity|exact Hcur|cbn; rewrite upd_same; reflexivity|exact Hph|reflexivity|cbn [tov tdel]; symmetry; exact El|reflexivity|reflexivity|discriminate|discriminate].
        -- set (base := if match lookup (tov x) k with Some _ => false | None => negb (memk k (tdel x)) end then Some (store c k) else None).
           destruct (lapply (tov x, tdel x) (LTouch k base)) as [ov dl] eqn:El.
           eapply (DA_write c i _ x _ (LTouch k base) pend); [reflexivity|reflexivity|exact Hcur|cbn; rewrite upd_same; reflexivity|exact Hph|reflexivity|cbn [tov tdel]; symmetry; exact El|reflexivity|reflexivity|discriminate|].
           intros k0 b0 [= <- <-]. reflexivity.
    + destruct (tdel x) eqn:Hd.
      * keep Hcur. cbn. rewrite Hph. split; discriminate.
      * eapply (DA_del c i _ x); [exact Hcur|cbn; rewrite upd_same; reflexivity|exact Hph|reflexivity|cbn; rewrite Hd; reflexivity|reflexivity|reflexivity|reflexivity|reflexivity|reflexivity].
    + destruct (tov x) eqn:Ho.
      * eapply DA_clear; [reflexivity|reflexivity|exact Hcur|cbn; rewrite upd_same; reflexivity|reflexivity|reflexivity|reflexivity|intros _; exact Ho|reflexivity].
      * eapply (DA_set c i _ x); [exact Hcur|cbn; rewrite upd_same; reflexivity|exact Hph|reflexivity|cbn; rewrite Ho; reflexivity|reflexivity|reflexivity|reflexivity|reflexivity].
    + destruct (theld x) as [|[lk0 d0] hr].
      * apply DA_out; try reflexivity. cbn. rewrite upd_same. reflexivity.
      * keep Hcur. cbn. rewrite Hph. split; reflexivity.
  - destruct (items (tasks c i)) as [|[cm|b] rest] eqn:Hit.
    + apply DA_out; try reflexivity. exact Hcur.
    + unfold direct. destruct cm as [k|k v|k d|k|n|k v want|k];
        try (apply DA_out; try reflexivity; cbn; rewrite upd_same; reflexivity);
        (eapply (DA_direct c i _ _ rest); [exact Hcur|cbn; rewrite upd_same; reflexivity|exact Hit|reflexivity|reflexivity|reflexivity]).
    + eapply (DA_begin c i _ _ b rest); [reflexivity|reflexivity|exact Hcur|exact Hit|cbn; rewrite upd_same; reflexivity|reflexivity|reflexivity|reflexivity|reflexivity].
Qed.

(* ---------- C05 (c): no lost increments ---------- *)
Definition val (o : option Z) : Z := match o with Some v => v | None => 0 end.
Fixpoint incsum (k : nat) (ex : list lcmd) : Z :=
  match ex with
  | [] => 0
  | LIncr k' d _ :: r => (if Nat.eqb k' k then d else 0) + incsum k r
  | _ :: r => incsum k r
  end.
Fixpoint committed (k : nat) (log : list (nat * nat * wkind * list lcmd)) : Z :=
  match log with
  | [] => 0
  | (_, _, WSetMany, ex) :: r => incsum k ex + committed k r
  | _ :: r => committed k r
  end.
Lemma incsum_app k a b : incsum k (a ++ b) = incsum k a + incsum k b.
Proof. induction a as [|[| | | |] a IH]; cbn; try assumption; lia. Qed.
Lemma committed_app k a b : committed k (a ++ b) = committed k a + committed k b.
Proof. induction a as [|[[[? ?] []] ?] a IH]; cbn; try assumption; lia. Qed.

(* the programs: every block runs in mode m; inside blocks the key k is written by increments only; outside blocks not at all *)
Definition wf_cmd (k : nat) (c : cmd) : Prop := is_write c = true -> cmd_key c = k -> (exists d, c = Incr k d) \/ c = Touch k.
Definition wf_block (m : mode) (k : nat) (b : block) : Prop := bmode b = m /\ Forall (wf_cmd k) (bcmds b).
Definition wf_item (m : mode) (k : nat) (it : item) : Prop :=
  match it with Direct c => is_write c = true -> cmd_key c <> k | Txn b => wf_block m k b end.
Definition WFc (m : mode) (k : nat) (c : cfg) : Prop :=
  forall i, Forall (wf_item m k) (items (tasks c i)) /\ (forall x, cur (tasks c i) = Some x -> wf_block m k (tblock x)).
(* nobody is inside a block for longer than the timeout its locks were taken with *)
Definition NoOverstay (c : cfg) : Prop := forall i x lk d, cur (tasks c i) = Some x -> In (lk, d) (theld x) -> now c < d.

Lemma run_task_items c i h :
  items (tasks (fst (run_task c i h)) i) = items (tasks c i) \/ items (tasks (fst (run_task c i h)) i) = tl (items (tasks c i)).
Proof.
  unfold run_task.
  destruct (now c <? wake (tasks c i)); [left; reflexivity|].
  destruct (cur (tasks c i)) as [x|] eqn:Hcur.
  - destruct (tphase x) as [[|cm pend]| | |] eqn:Hph.
    + destruct (tfail x); [|destruct (braise (tblock x))]; left; cbn; rewrite upd_same; reflexivity.
    + destruct (match tmode x with Fast => false | _ => is_write cm && negb (heldb (theld x) (lock_key (tmode x) (cmd_key cm))) end).
      * destruct (lock_free c _); left; cbn; rewrite upd_same; reflexivity.
      * unfold body_cmd. destruct cm; cbn;
          repeat match goal with
                 | |- context[if ?b then _ else _] => destruct b
                 | |- context[match lookup ?a ?b with _ => _ end] => destruct (lookup a b)
                 | |- context[let '(_, _) := ?p in _] => destruct p
                 end; left; cbn; rewrite upd_same; reflexivity.
    + destruct (tdel x); left; cbn; rewrite upd_same; reflexivity.
    + destruct (tov x); left; cbn; rewrite upd_same; reflexivity.
    + destruct (theld x) as [|[lk0 d0] hr]; [right|left]; cbn; rewrite upd_same; reflexivity.
  - destruct (items (tasks c i)) as [|[cm|b] rest] eqn:Hit; [left; cbn; exact Hit| |left; cbn; rewrite upd_same; cbn; exact Hit].
    unfold direct. destruct cm; right; cbn; rewrite upd_same; reflexivity.
Qed.

Lemma wfc_run_task m k c i h : WFc m k c -> WFc m k (fst (run_task c i h)).
Proof.
  intros W j. destruct (Nat.eq_dec j i) as [->|Hne]; [|rewrite run_task_frame by assumption; apply W].
  destruct (W i) as [Wi Wx]. split.
  - destruct (run_task_items c i h) as [E|E]; rewrite E; [exact Wi|]. destruct (items (tasks c i)); [constructor|]. inversion Wi; assumption.
  - intros x' Hx'. destruct (run_task_data_action c i h) as [A|E]; [|rewrite E in Hx'; eauto].
    destruct A as [x x0 _ _ Hc Hc' _ _ _ _ Hb | _ _ Hc' | x0 b rest _ _ Hc Hit Hc' _ _ _ Hb | cm rest _ Hc' | x x0 l pend _ _ Hc Hc' _ _ _ _ Hb _
                   | x x0 _ _ Hc Hc' _ _ _ _ Hb | x x0 Hc Hc' _ _ _ _ _ _ _ Hb | x x0 Hc Hc' _ _ _ _ _ _ Hb];
      rewrite Hc' in Hx'; try discriminate; injection Hx' as <-; try (rewrite Hb; eauto).
    rewrite Hit in Wi. inversion Wi as [|? ? Hw _]. exact Hw.
Qed.

Definition CI (k : nat) (v0 : Z) (c : cfg) : Prop :=
  val (store c k) = v0 + committed k (wlog c) /\
  (forall i x v, cur (tasks c i) = Some x -> lookup (tov x) k = Some v -> v = val (store c k) + incsum k (texec x)) /\
  (forall i x, cur (tasks c i) = Some x -> memk k (tdel x) = false) /\
  (forall i x, cur (tasks c i) = Some x -> lookup (tov x) k = None -> tphase x <> PUnlock -> incsum k (texec x) = 0).

Lemma lkind_write l : is_write (lkind l) = true.
Proof. destruct l; reflexivity. Qed.

Lemma ci_run_task m k v0 c i h : m <> Fast -> LInv c -> TAll c -> WFc m k c -> NoOverstay c -> CI k v0 c -> CI k v0 (fst (run_task c i h)).
Proof.
  intros Hm (L1 & _ & L3 & _) TA W NO (C1 & C2 & C3 & C4).
  pose proof (run_task_frame c i h) as F.
  destruct (run_task_data_action c i h) as [A|E]; [|rewrite E; repeat split; assumption].
  set (c' := fst (run_task c i h)) in *.
  assert (Oth : forall j y, j <> i -> cur (tasks c' j) = Some y -> cur (tasks c j) = Some y) by (intros j y Hj Hy; rewrite F in Hy; assumption).
  destruct A as [x x' Hs Hw Hc Hc' Ho Hd He Hp Hb | Hs Hw Hc' | x' b rest Hs Hw Hc Hit Hc' Ho Hd He Hb | cm rest Hc Hc' Hit Hwr Hs Hw
                 | x x' l pend Hs Hw Hc Hc' Hph Hph' Hl He Hb Hbase Hbase2 | x x' Hs Hw Hc Hc' Ho Hd Hp Hemp Hb
                 | x x' Hc Hc' Hph Hph' Hs Hw Ho Hd He Hb | x x' Hc Hc' Hph Hph' Hs Hw Ho Hd Hb].
  - (* keep *) unfold CI. rewrite Hs, Hw. repeat split; [exact C1| | |].
    + intros j y v Hy Hv. destruct (Nat.eq_dec j i) as [->|Hne]; [|eauto]. rewrite Hc' in Hy. injection Hy as <-. rewrite Ho in Hv. rewrite He. eauto.
    + intros j y Hy. destruct (Nat.eq_dec j i) as [->|Hne]; [|eauto]. rewrite Hc' in Hy. injection Hy as <-. rewrite Hd. eauto.
    + intros j y Hy Hv Hpu. destruct (Nat.eq_dec j i) as [->|Hne]; [|eauto]. rewrite Hc' in Hy. injection Hy as <-. rewrite Ho in Hv. rewrite He.
      eapply C4; eauto. intro Q. apply Hpu, Hp, Q.
  - (* out *) unfold CI. rewrite Hs, Hw. repeat split; [exact C1| | |]; intros j y; intros; (destruct (Nat.eq_dec j i) as [->|Hne]; [congruence|eauto]).
  - (* begin *) unfold CI. rewrite Hs, Hw. repeat split; [exact C1| | |].
    + intros j y v Hy Hv. destruct (Nat.eq_dec j i) as [->|Hne]; [|eauto]. rewrite Hc' in Hy. injection Hy as <-. rewrite Ho in Hv. discriminate.
    + intros j y Hy. destruct (Nat.eq_dec j i) as [->|Hne]; [|eauto]. rewrite Hc' in Hy. injection Hy as <-. rewrite Hd. reflexivity.
    + intros j y Hy Hv Hpu. destruct (Nat.eq_dec j i) as [->|Hne]; [|eauto]. rewrite Hc' in Hy. injection Hy as <-. rewrite He. reflexivity.
  - (* direct write: not on k *)
    destruct (W i) as [Wi _]. rewrite Hit in Wi. inversion Wi as [|? ? Hwi _]. cbn in Hwi. specialize (Hwi Hwr).
    assert (Sk : store c' k = store c k).
    { rewrite Hs. destruct cm; cbn in *; try discriminate; try (destruct (Bool.eqb _ _); [|reflexivity]); unfold upd; destruct (Nat.eqb_spec k k0); congruence. }
    unfold CI. rewrite Sk, Hw, committed_app. cbn. repeat split; [lia| | |]; intros j y; intros; (destruct (Nat.eq_dec j i) as [->|Hne]; [congruence|eauto]).
  - (* a write command of a body *)
    pose proof (TA _ _ Hc) as (_ & T2 & _ & _ & T5 & T6). rewrite Hph in T6. unfold pending in T2. rewrite Hph in T2. specialize (T2 T6).
    destruct (W i) as [_ Wx]. destruct (Wx _ Hc) as [_ Wb].
    assert (Hin : In (lkind l) (bcmds (tblock x))).
    { assert (Hf : In (lkind l) (filter is_write (bcmds (tblock x)))).
      { rewrite T2. apply in_or_app. right. cbn. rewrite lkind_write. left. reflexivity. }
      apply filter_In in Hf. apply Hf. }
    rewrite Forall_forall in Wb. specialize (Wb _ Hin (lkind_write l)).
    unfold CI. rewrite Hs, Hw. split; [exact C1|].
    destruct (Nat.eq_dec (lkey l) k) as [Hk|Hk].
    + (* on k: it is an increment *)
      assert (Hck : cmd_key (lkind l) = k) by (destruct l; exact Hk). destruct (Wb Hck) as [(d & Hd)|Hd]; cycle 1.
      { (* ... or a touch: the value read under the lock goes into the overlay unchanged *)
        destruct l as [k0 v|k0 d0 base|k0|k0 v w hit|k0 base]; try discriminate. cbn in Hd. injection Hd as ->.
        specialize (Hbase2 _ _ eq_refl). pose proof (C3 _ _ Hc) as Hnd. rewrite Hnd in Hbase2. cbn in Hbase2.
        cbn in Hl. rewrite Hnd in Hl.
        assert (Ein : incsum k (texec x') = incsum k (texec x)) by (rewrite He, incsum_app; cbn; lia).
        assert (Same : tov x' = tov x -> tdel x' = tdel x ->
                  (forall j y v, cur (tasks c' j) = Some y -> lookup (tov y) k = Some v -> v = val (store c k) + incsum k (texec y)) /\
                  (forall j y, cur (tasks c' j) = Some y -> memk k (tdel y) = false) /\
                  (forall j y, cur (tasks c' j) = Some y -> lookup (tov y) k = None -> tphase y <> PUnlock -> incsum k (texec y) = 0)).
        { intros Ho' Hd'. repeat split.
          - intros j y v Hy Hv. destruct (Nat.eq_dec j i) as [->|Hne]; [|eauto]. rewrite Hc' in Hy. injection Hy as <-. rewrite Ho' in Hv. rewrite Ein. eauto.
          - intros j y Hy. destruct (Nat.eq_dec j i) as [->|Hne]; [|eauto]. rewrite Hc' in Hy. injection Hy as <-. rewrite Hd'. eauto.
          - intros j y Hy Hv Hpu. destruct (Nat.eq_dec j i) as [->|Hne]; [|eauto]. rewrite Hc' in Hy. injection Hy as <-. rewrite Ho' in Hv. rewrite Ein.
            eapply C4; eauto. rewrite Hph. discriminate. }
        destruct (lookup (tov x) k) as [v1|] eqn:Elk.
        - injection Hl as Ho' Hd'. apply Same; assumption.
        - cbn in Hbase2. subst base. destruct (store c k) as [b|] eqn:Es.
          + injection Hl as Ho' Hd'. repeat split.
            * intros j y v Hy Hv. destruct (Nat.eq_dec j i) as [->|Hne]; [|eauto]. rewrite Hc' in Hy. injection Hy as <-.
              rewrite Ho', lookup_put, Nat.eqb_refl in Hv. injection Hv as <-. rewrite Ein.
              assert (Z0 : incsum k (texec x) = 0) by (eapply C4; eauto; rewrite Hph; discriminate). rewrite Z0. cbn. lia.
            * intros j y Hy. destruct (Nat.eq_dec j i) as [->|Hne]; [|eauto]. rewrite Hc' in Hy. injection Hy as <-. rewrite Hd'. eauto.
            * intros j y Hy Hv Hpu. destruct (Nat.eq_dec j i) as [->|Hne]; [|eauto]. rewrite Hc' in Hy. injection Hy as <-.
              rewrite Ho', lookup_put, Nat.eqb_refl in Hv. discriminate.
          + injection Hl as Ho' Hd'. apply Same; assumption. }
      destruct l as [k0 v|k0 d0 base|k0|k0 v w hit|k0 base]; try discriminate. cbn in Hd. injection Hd as -> ->.
      specialize (Hbase _ _ _ eq_refl). pose proof (C3 _ _ Hc) as Hnd. rewrite Hnd in Hbase. cbn in Hbase.
      cbn in Hl. injection Hl as Ho' Hd'.
      repeat split.
      * intros j y v Hy Hv. destruct (Nat.eq_dec j i) as [->|Hne]; [|eauto]. rewrite Hc' in Hy. injection Hy as <-.
        rewrite Ho', lookup_put, Nat.eqb_refl in Hv. injection Hv as <-. rewrite He, incsum_app. cbn. rewrite Nat.eqb_refl.
        destruct (lookup (tov x) k) as [v1|] eqn:Elk.
        -- rewrite (C2 _ _ _ Hc Elk). lia.
        -- rewrite Hbase. assert (Z0 : incsum k (texec x) = 0) by (eapply C4; eauto; rewrite Hph; discriminate).
           rewrite Z0. destruct (store c k); cbn; lia.
      * intros j y Hy. destruct (Nat.eq_dec j i) as [->|Hne]; [|eauto]. rewrite Hc' in Hy. injection Hy as <-.
        rewrite Hd', memk_remk, Nat.eqb_refl. apply andb_false_r.
      * intros j y Hy Hv Hpu. destruct (Nat.eq_dec j i) as [->|Hne]; [|eauto]. rewrite Hc' in Hy. injection Hy as <-.
        rewrite Ho', lookup_put, Nat.eqb_refl in Hv. discriminate.
    + (* on another key *)
      assert (Elk : lookup (tov x') k = lookup (tov x) k).
      { destruct l as [k0 v|k0 d0 base|k0|k0 v w [|]|k0 base]; cbn in Hl, Hk;
          [| | | | |destruct (lookup (tov x) k0); [|destruct (memk k0 (tdel x)); [|destruct base as [[b|]|]]]];
          injection Hl as -> _; rewrite ?lookup_put, ?lookup_remove;
          try reflexivity; destruct (Nat.eqb_spec k k0); congruence. }
      assert (Edl : memk k (tdel x') = memk k (tdel x)).
      { destruct l as [k0 v|k0 d0 base|k0|k0 v w [|]|k0 base]; cbn in Hl, Hk;
          [| | | | |destruct (lookup (tov x) k0); [|destruct (memk k0 (tdel x)) eqn:?; [|destruct base as [[b|]|]]]];
          injection Hl as _ ->; rewrite ?memk_remk; try reflexivity.
        - destruct (Nat.eqb_spec k k0); [congruence|]. apply andb_true_r.
        - destruct (Nat.eqb_spec k k0); [congruence|]. apply andb_true_r.
        - destruct (memk k0 (tdel x)); [reflexivity|]. cbn. destruct (Nat.eqb_spec k k0); [congruence|reflexivity].
        - destruct (Nat.eqb_spec k k0); [congruence|]. apply andb_true_r. }
      assert (Ein : incsum k (texec x') = incsum k (texec x)).
      { rewrite He, incsum_app. destruct l as [k0 v|k0 d0 base|k0|k0 v w hit|k0 base]; cbn in *; try lia. destruct (Nat.eqb_spec k0 k); [congruence|lia]. }
      repeat split.
      * intros j y v Hy Hv. destruct (Nat.eq_dec j i) as [->|Hne]; [|eauto]. rewrite Hc' in Hy. injection Hy as <-. rewrite Elk in Hv. rewrite Ein. eauto.
      * intros j y Hy. destruct (Nat.eq_dec j i) as [->|Hne]; [|eauto]. rewrite Hc' in Hy. injection Hy as <-. rewrite Edl. eauto.
      * intros j y Hy Hv Hpu. destruct (Nat.eq_dec j i) as [->|Hne]; [|eauto]. rewrite Hc' in Hy. injection Hy as <-. rewrite Elk in Hv. rewrite Ein.
        eapply C4; eauto. rewrite Hph. discriminate.
  - (* clear *) unfold CI. rewrite Hs, Hw. repeat split; [exact C1| | |].
    + intros j y v Hy Hv. destruct (Nat.eq_dec j i) as [->|Hne]; [|eauto]. rewrite Hc' in Hy. injection Hy as <-. rewrite Ho in Hv. discriminate.
    + intros j y Hy. destruct (Nat.eq_dec j i) as [->|Hne]; [|eauto]. rewrite Hc' in Hy. injection Hy as <-. rewrite Hd. reflexivity.
    + intros j y Hy Hv Hpu. destruct (Nat.eq_dec j i) as [->|Hne]; [|eauto]. rewrite Hc' in Hy. injection Hy as <-. contradiction.
  - (* delete_many: k is never in a delete set *)
    assert (Sk : store c' k = store c k) by (rewrite Hs, (C3 _ _ Hc); reflexivity).
    unfold CI. rewrite Sk, Hw, committed_app. cbn. repeat split; [lia| | |].
    + intros j y v Hy Hv. destruct (Nat.eq_dec j i) as [->|Hne]; [|eauto]. rewrite Hc' in Hy. injection Hy as <-. rewrite Ho in Hv. rewrite He. eauto.
    + intros j y Hy. destruct (Nat.eq_dec j i) as [->|Hne]; [|eauto]. rewrite Hc' in Hy. injection Hy as <-. rewrite Hd. eauto.
    + intros j y Hy Hv Hpu. destruct (Nat.eq_dec j i) as [->|Hne]; [|eauto]. rewrite Hc' in Hy. injection Hy as <-. rewrite Ho in Hv. rewrite He.
      eapply C4; eauto. rewrite Hph. discriminate.
  - (* set_many *)
    assert (Excl : forall j y v, j <> i -> cur (tasks c j) = Some y -> lookup (tov y) k = Some v -> lookup (tov x) k = None).
    { intros j y v Hne Hy Hv. destruct (lookup (tov x) k) as [vx|] eqn:Ex; [exfalso|reflexivity].
      pose proof (TA _ _ Hc) as (_ & _ & Hx3 & _ & Mx & _). pose proof (TA _ _ Hy) as (_ & _ & Hy3 & _ & My & _).
      destruct (W i) as [_ Wx]. destruct (Wx _ Hc) as [Bx _]. destruct (W j) as [_ Wy]. destruct (Wy _ Hy) as [By _].
      assert (Ex' : tmode x = m) by congruence. assert (Ey' : tmode y = m) by congruence.
      assert (Nx : tmode x <> Fast) by congruence. assert (Ny : tmode y <> Fast) by congruence.
      assert (Tx : touched x k = true) by (unfold touched; rewrite Ex; reflexivity).
      assert (Ty : touched y k = true) by (unfold touched; rewrite Hv; reflexivity).
      specialize (Hx3 Nx k Tx). specialize (Hy3 Ny k Ty). rewrite Ex' in Hx3. rewrite Ey' in Hy3.
      destruct (heldb_ex _ _ Hx3) as (d & Dx). destruct (heldb_ex _ _ Hy3) as (d' & Dy).
      assert (Ei : lk_of (tasks c i) = Some (ttoken x, theld x)) by (unfold lk_of; rewrite Hc; reflexivity).
      assert (Ej : lk_of (tasks c j) = Some (ttoken y, theld y)) by (unfold lk_of; rewrite Hy; reflexivity).
      pose proof (L1 _ _ _ _ _ Ei Dx (NO _ _ _ _ Hc Dx)) as E1. pose proof (L1 _ _ _ _ _ Ej Dy (NO _ _ _ _ Hy Dy)) as E2.
      rewrite E1 in E2. injection E2 as E _. rewrite E in Ei. apply Hne. symmetry. eapply L3; eauto. }
    assert (Sk : val (store c' k) = val (store c k) + incsum k (texec x)).
    { rewrite Hs. destruct (lookup (tov x) k) as [vx|] eqn:Ex.
      - cbn. eapply C2; eauto.
      - assert (Z0 : incsum k (texec x) = 0) by (eapply C4; eauto; rewrite Hph; discriminate). lia. }
    unfold CI. rewrite Hw, committed_app. cbn. repeat split; [lia| | |].
    + intros j y v Hy Hv. destruct (Nat.eq_dec j i) as [->|Hne].
      * rewrite Hc' in Hy. injection Hy as <-. rewrite Ho in Hv. discriminate.
      * pose proof (Oth _ _ Hne Hy) as Hy0. pose proof (Excl _ _ _ Hne Hy0 Hv) as Ex.
        assert (S' : store c' k = store c k) by (rewrite Hs, Ex; reflexivity). rewrite S'. eauto.
    + intros j y Hy. destruct (Nat.eq_dec j i) as [->|Hne]; [|eauto]. rewrite Hc' in Hy. injection Hy as <-. rewrite Hd. reflexivity.
    + intros j y Hy Hv Hpu. destruct (Nat.eq_dec j i) as [->|Hne]; [|eauto]. rewrite Hc' in Hy. injection Hy as <-. contradiction.
Qed.

Lemma wfc_step m k c e : WFc m k c -> WFc m k (fst (step c e)).
Proof. destruct e as [i h|dt]; cbn [step]; [apply wfc_run_task|]. destruct (0 <=? dt); intro H; exact H. Qed.

Lemma ci_step m k v0 c e : m <> Fast -> LInv c -> TAll c -> WFc m k c -> NoOverstay c -> CI k v0 c -> CI k v0 (fst (step c e)).
Proof.
  destruct e as [i h|dt]; cbn [step]; [apply ci_run_task|]. intros _ _ _ _ _ H. destruct (0 <=? dt); exact H.
Qed.

(* every state the run passes through satisfies NoOverstay: the property's proviso *)
Fixpoint safe (c : cfg) (evs : list event) : Prop :=
  match evs with [] => True | e :: r => NoOverstay c /\ safe (fst (step c e)) r end.

Definition wf_progs (m : mode) (k : nat) (progs : list (list item)) : Prop := Forall (Forall (wf_item m k)) progs.

Lemma wfc_init m k progs st tmo att : wf_progs m k progs -> WFc m k (init progs st tmo att).
Proof.
  intros H i. cbn. split; [|discriminate]. unfold wf_progs in H. rewrite Forall_forall in H.
  destruct (Nat.lt_ge_cases i (length progs)) as [Hl|Hl].
  - apply H. apply nth_In. exact Hl.
  - rewrite nth_overflow by exact Hl. constructor.
Qed.

Lemma ci_init k progs st tmo att : CI k (val (st k)) (init progs st tmo att).
Proof. unfold CI. cbn. repeat split; try discriminate. lia. Qed.

Theorem tx_no_lost_incr m k progs st tmo att evs : m <> Fast -> wf_progs m k progs ->
  safe (init progs st tmo att) evs ->
  let c := run_from (init progs st tmo att) evs in
  val (store c k) = val (st k) + committed k (wlog c).
Proof.
  intros Hm Hwf.
  assert (G : forall evs c0, LInv c0 -> TAll c0 -> WFc m k c0 -> CI k (val (st k)) c0 -> safe c0 evs -> CI k (val (st k)) (run_from c0 evs)).
  { clear evs. induction evs as [|e evs IH]; intros c0 HL HT HW HC HS; cbn; [exact HC|]. destruct HS as [HN HS].
    apply IH; [apply linv_step|apply tall_step|apply wfc_step|apply ci_step with (m := m)|]; assumption. }
  intros Hs c. apply G; [apply linv_init|apply tall_init|apply wfc_init; assumption|apply ci_init|assumption].
Qed.

(* what the log entries are: the effects of one block's own write commands, all of them, of a block that ended normally *)
Definition LogOk (c : cfg) : Prop :=
  forall i tk kd ex, In (i, tk, kd, ex) (wlog c) -> kd <> WDirect ->
    exists b, braise b = false /\ filter is_write (bcmds b) = map lkind ex.

Lemma logok_run_task c i h : TAll c -> LogOk c -> LogOk (fst (run_task c i h)).
Proof.
  intros TA LO. destruct (run_task_data_action c i h) as [A|E]; [|rewrite E; exact LO].
  destruct A as [x x' Hs Hw | Hs Hw | x' b rest Hs Hw | cm rest Hc Hc' Hit Hwr Hs Hw | x x' l pend Hs Hw | x x' Hs Hw
                 | x x' Hc Hc' Hph Hph' Hs Hw | x x' Hc Hc' Hph Hph' Hs Hw]; unfold LogOk; rewrite Hw; try exact LO.
  - intros j tk kd ex Hin Hk. apply in_app_or in Hin as [Hin|[E|[]]]; [eauto|]. injection E as <- <- <- <-. contradiction.
  - intros j tk kd ex Hin Hk. apply in_app_or in Hin as [Hin|[E|[]]]; [eauto|]. injection E as <- <- <- <-.
    pose proof (TA _ _ Hc) as (_ & T2 & _ & T4 & _). unfold pending in T2. rewrite Hph in *. destruct T4 as [Tf Tr].
    exists (tblock x). split; [exact Tr|]. rewrite (T2 Tf). apply app_nil_r.
  - intros j tk kd ex Hin Hk. apply in_app_or in Hin as [Hin|[E|[]]]; [eauto|]. injection E as <- <- <- <-.
    pose proof (TA _ _ Hc) as (_ & T2 & _ & T4 & _). unfold pending in T2. rewrite Hph in *. destruct T4 as [Tf Tr].
    exists (tblock x). split; [exact Tr|]. rewrite (T2 Tf). apply app_nil_r.
Qed.

Theorem tx_log_is_own_writes progs st tmo att evs : LogOk (run_from (init progs st tmo att) evs).
Proof.
  assert (G : forall evs c0, TAll c0 -> LogOk c0 -> LogOk (run_from c0 evs)).
  { clear evs. induction evs as [|e evs IH]; intros c0 HT HL; cbn; [exact HL|]. apply IH; [apply tall_step; exact HT|].
    destruct e as [i h|dt]; cbn [step]; [apply logok_run_task; assumption|]. destruct (0 <=? dt); exact HL. }
  apply G; [apply tall_init|]. intros i tk kd ex H. destruct H.
Qed.

(* ---------- every block commits at most once ---------- *)
Definition prank (p : phase) : nat := match p with PBody _ => 0 | PCommitDel => 1 | PCommitSet => 2 | PUnlock => 3 end.

Lemma run_task_rank c i h x x' : cur (tasks c i) = Some x -> cur (tasks (fst (run_task c i h)) i) = Some x' ->
  ttoken x' = ttoken x /\ (prank (tphase x) <= prank (tphase x'))%nat.
Proof.
  intros Hcur. unfold run_task.
  destruct (now c <? wake (tasks c i)); [cbn; rewrite Hcur; intros [= <-]; split; [reflexivity|lia]|].
  rewrite Hcur.
  destruct (tphase x) as [[|cm pend]| | |] eqn:Hph.
  - destruct (tfail x); [|destruct (braise (tblock x))]; cbn; rewrite upd_same; cbn; intros [= <-]; cbn; split; try reflexivity; lia.
  - destruct (match tmode x with Fast => false | _ => is_write cm && negb (heldb (theld x) (lock_key (tmode x) (cmd_key cm))) end).
    + destruct (lock_free c _).
      * cbn. rewrite upd_same. cbn. intros [= <-]. cbn. split; [reflexivity|lia].
      * cbn. rewrite upd_same. cbn. intros [= <-].
        destruct (match tbudget x with Some n => n | None => attempts c end) as [|[|n]]; cbn; split; try reflexivity; lia.
    + unfold body_cmd. destruct cm; cbn;
        repeat match goal with
               | |- context[if ?b then _ else _] => destruct b
               | |- context[match lookup ?a ?b with _ => _ end] => destruct (lookup a b)
               | |- context[let '(_, _) := ?p in _] => destruct p
               end; cbn; rewrite upd_same; cbn; intros [= <-]; cbn; split; try reflexivity; lia.
  - destruct (tdel x); cbn; rewrite upd_same; cbn; intros [= <-]; cbn; rewrite ?Hph; cbn; split; try reflexivity; lia.
  - destruct (tov x); cbn; rewrite upd_same; cbn; intros [= <-]; cbn; split; try reflexivity; lia.
  - destruct (theld x) as [|[lk0 d0] hr]; cbn; rewrite upd_same; cbn; [discriminate|]. intros [= <-]. cbn. split; [reflexivity|lia].
Qed.

Definition wk_eqb (a b : wkind) : bool := match a, b with WDirect, WDirect | WDelMany, WDelMany | WSetMany, WSetMany => true | _, _ => false end.
Fixpoint cnt (kd : wkind) (tk : nat) (log : list (nat * nat * wkind * list lcmd)) : nat :=
  match log with
  | [] => 0
  | (_, tk', kd', _) :: r => (if Nat.eqb tk' tk && wk_eqb kd' kd then 1 else 0) + cnt kd tk r
  end.
Lemma cnt_app kd tk a b : cnt kd tk (a ++ b) = (cnt kd tk a + cnt kd tk b)%nat.
Proof. induction a as [|[[[? ?] ?] ?] a IH]; cbn; [reflexivity|]. rewrite IH. lia. Qed.

Lemma run_task_fresh c i h :
  fresh (fst (run_task c i h)) = fresh c \/
  (fresh (fst (run_task c i h)) = S (fresh c) /\ cur (tasks c i) = None /\
   exists x', cur (tasks (fst (run_task c i h)) i) = Some x' /\ ttoken x' = fresh c).
Proof.
  destruct (run_task_lock_action c i h) as [_ _ Hf _| _ _ Hf Hi Hi'|? ? ? _ Hf _ _ _ _ _|? ? ? _ Hf _ _ _|? _ _ Hf _ _]; try (left; exact Hf).
  right. split; [exact Hf|]. unfold lk_of in Hi, Hi'. destruct (cur (tasks c i)); [discriminate|]. split; [reflexivity|].
  destruct (cur (tasks (fst (run_task c i h)) i)) as [x'|]; [|discriminate]. cbn in Hi'. injection Hi' as E _. eauto.
Qed.

(* what the write log can hold for a transaction token: at most one delete_many and one set_many, and none before the
   transaction reaches the corresponding point of its commit *)
Definition WI (c : cfg) : Prop :=
  (forall tk, (cnt WDelMany tk (wlog c) <= 1)%nat /\ (cnt WSetMany tk (wlog c) <= 1)%nat) /\
  (forall i x, cur (tasks c i) = Some x ->
      ((prank (tphase x) <= 1)%nat -> cnt WDelMany (ttoken x) (wlog c) = 0%nat) /\
      ((prank (tphase x) <= 2)%nat -> cnt WSetMany (ttoken x) (wlog c) = 0%nat)) /\
  (forall tk, (fresh c <= tk)%nat -> cnt WDelMany tk (wlog c) = 0%nat /\ cnt WSetMany tk (wlog c) = 0%nat).

Lemma wi_run_task c i h : LInv c -> WI c -> WI (fst (run_task c i h)).
Proof.
  intros (L1 & L2 & L3 & L4) (W1 & W2 & W3).
  pose proof (run_task_frame c i h) as F. pose proof (run_task_fresh c i h) as Fr.
  pose proof (fun x x' => run_task_rank c i h x x') as Rk.
  destruct (run_task_data_action c i h) as [A|E]; [|rewrite E; exact (conj W1 (conj W2 W3))].
  remember (fst (run_task c i h)) as c' eqn:Ec'.
  assert (Hfr : (fresh c <= fresh c')%nat) by (destruct Fr as [->|(-> & _)]; lia).
  (* the steps that do not append a commit entry *)
  assert (NoCommit : (forall kd tk, kd <> WDirect -> cnt kd tk (wlog c') = cnt kd tk (wlog c)) -> WI c').
  { intro Hc. assert (HcD : forall tk, cnt WDelMany tk (wlog c') = cnt WDelMany tk (wlog c)) by (intro; apply Hc; discriminate).
    assert (HcS : forall tk, cnt WSetMany tk (wlog c') = cnt WSetMany tk (wlog c)) by (intro; apply Hc; discriminate).
    split; [intro tk; rewrite HcD, HcS; apply W1|]. split.
    - intros j y Hy. rewrite HcD, HcS. destruct (Nat.eq_dec j i) as [->|Hne]; [|rewrite F in Hy by exact Hne; apply W2 with (i := j); exact Hy].
      destruct (cur (tasks c i)) as [x|] eqn:Hx.
      + destruct (Rk x y eq_refl Hy) as [Et Er]. rewrite Et. destruct (W2 i x Hx) as [A1 A2]. split; intro Hr; [apply A1|apply A2]; lia.
      + destruct Fr as [Ef|(_ & _ & x' & Hx' & Et)].
        * (* no transaction before and none begun: impossible to have one now except through begin *)
          exfalso. destruct (run_task_lock_action c i h) as [_ _ _ Hi| _ _ Hf' _ _|? ? ? _ _ Hi _ _ _ _|? ? ? _ _ Hi _ _|? _ _ _ Hi _];
            rewrite <- ?Ec' in *; unfold lk_of in *; rewrite ?Hx, ?Hy in *; try discriminate. lia.
        * rewrite Hy in Hx'. injection Hx' as <-. rewrite Et. destruct (W3 (fresh c) (le_n _)) as [Z1 Z2]. split; intros _; assumption.
    - intros tk Hk. rewrite HcD, HcS. apply W3. lia. }
  destruct A as [x x' Hs Hw | Hs Hw | x' b rest Hs Hw | cm rest Hc Hc' Hit Hwr Hs Hw | x x' l pend Hs Hw | x x' Hs Hw
                 | x x' Hc Hc' Hph Hph' Hs Hw | x x' Hc Hc' Hph Hph' Hs Hw].
  - apply NoCommit. intros. rewrite Hw. reflexivity.
  - apply NoCommit. intros. rewrite Hw. reflexivity.
  - apply NoCommit. intros. rewrite Hw. reflexivity.
  - apply NoCommit. intros kd tk Hk. rewrite Hw, cnt_app. cbn. destruct kd; try contradiction; rewrite andb_false_r; lia.
  - apply NoCommit. intros. rewrite Hw. reflexivity.
  - apply NoCommit. intros. rewrite Hw. reflexivity.
  - (* delete_many of the commit *)
    destruct (Rk x x' Hc Hc') as [Et _].
    assert (Ltk : (ttoken x < fresh c)%nat) by (apply (L2 i (ttoken x) (theld x)); unfold lk_of; rewrite Hc; reflexivity).
    destruct (W2 i x Hc) as [A1 A2]. rewrite Hph in A1, A2. specialize (A1 ltac:(cbn; lia)). specialize (A2 ltac:(cbn; lia)).
    assert (CD : forall tk, cnt WDelMany tk (wlog c') = (cnt WDelMany tk (wlog c) + (if Nat.eqb (ttoken x) tk then 1 else 0))%nat).
    { intro tk. rewrite Hw, cnt_app. cbn. destruct (Nat.eqb (ttoken x) tk); cbn; lia. }
    assert (CS : forall tk, cnt WSetMany tk (wlog c') = cnt WSetMany tk (wlog c)).
    { intro tk. rewrite Hw, cnt_app. cbn. rewrite andb_false_r. lia. }
    split; [|split].
    + intro tk. rewrite CD, CS. destruct (W1 tk) as [B1 B2]. split; [|exact B2]. destruct (Nat.eqb_spec (ttoken x) tk) as [<-|]; lia.
    + intros j y Hy. rewrite CD, CS. destruct (Nat.eq_dec j i) as [->|Hne].
      * rewrite Hc' in Hy. injection Hy as <-. rewrite Et, Hph'. cbn. split; [lia|intros _; exact A2].
      * rewrite F in Hy by exact Hne. destruct (W2 j y Hy) as [B1 B2].
        assert (Hd : ttoken x <> ttoken y).
        { intro E. apply Hne. symmetry. apply (L3 i j (ttoken x) (theld x) (theld y)); unfold lk_of; rewrite ?Hc, ?Hy; cbn; congruence. }
        destruct (Nat.eqb_spec (ttoken x) (ttoken y)); [contradiction|]. split; [intro Hr; rewrite (B1 Hr); lia|exact B2].
    + intros tk Hk. rewrite CD, CS. destruct (W3 tk ltac:(lia)) as [Z1 Z2]. destruct (Nat.eqb_spec (ttoken x) tk); [lia|]. split; [lia|exact Z2].
  - (* set_many of the commit *)
    destruct (Rk x x' Hc Hc') as [Et _].
    assert (Ltk : (ttoken x < fresh c)%nat) by (apply (L2 i (ttoken x) (theld x)); unfold lk_of; rewrite Hc; reflexivity).
    destruct (W2 i x Hc) as [_ A2]. rewrite Hph in A2. specialize (A2 ltac:(cbn; lia)).
    assert (CS : forall tk, cnt WSetMany tk (wlog c') = (cnt WSetMany tk (wlog c) + (if Nat.eqb (ttoken x) tk then 1 else 0))%nat).
    { intro tk. rewrite Hw, cnt_app. cbn. destruct (Nat.eqb (ttoken x) tk); cbn; lia. }
    assert (CD : forall tk, cnt WDelMany tk (wlog c') = cnt WDelMany tk (wlog c)).
    { intro tk. rewrite Hw, cnt_app. cbn. rewrite andb_false_r. lia. }
    split; [|split].
    + intro tk. rewrite CD, CS. destruct (W1 tk) as [B1 B2]. split; [exact B1|]. destruct (Nat.eqb_spec (ttoken x) tk) as [<-|]; lia.
    + intros j y Hy. rewrite CD, CS. destruct (Nat.eq_dec j i) as [->|Hne].
      * rewrite Hc' in Hy. injection Hy as <-. rewrite Hph'. cbn. split; intro; lia.
      * rewrite F in Hy by exact Hne. destruct (W2 j y Hy) as [B1 B2].
        assert (Hd : ttoken x <> ttoken y).
        { intro E. apply Hne. symmetry. apply (L3 i j (ttoken x) (theld x) (theld y)); unfold lk_of; rewrite ?Hc, ?Hy; cbn; congruence. }
        destruct (Nat.eqb_spec (ttoken x) (ttoken y)); [contradiction|]. split; [exact B1|intro Hr; rewrite (B2 Hr); lia].
    + intros tk Hk. rewrite CD, CS. destruct (W3 tk ltac:(lia)) as [Z1 Z2]. destruct (Nat.eqb_spec (ttoken x) tk); [lia|]. split; [exact Z1|lia].
Qed.

Lemma wi_init progs st tmo att : WI (init progs st tmo att).
Proof. repeat split; intros; try discriminate; cbn; lia. Qed.

Theorem tx_commit_at_most_once progs st tmo att evs tk :
  let c := run_from (init progs st tmo att) evs in
  (cnt WDelMany tk (wlog c) <= 1)%nat /\ (cnt WSetMany tk (wlog c) <= 1)%nat.
Proof.
  assert (G : forall evs c0, LInv c0 -> WI c0 -> WI (run_from c0 evs)).
  { clear. induction evs as [|e evs IH]; intros c0 HL HW; cbn; [exact HW|]. apply IH; [apply linv_step; exact HL|].
    destruct e as [i h|dt]; cbn [step]; [apply wi_run_task; assumption|]. destruct (0 <=? dt); exact HW. }
  intro c. destruct (G evs _ (linv_init progs st tmo att) (wi_init progs st tmo att)) as (W1 & _). apply W1.
Qed.

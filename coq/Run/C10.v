From Coq Require Import Ascii.
From Cashews Require Import Base.Prelude Model.Serializer Run.SerTables.
Open Scope string_scope.

(* a stored blob (tampered, foreign key, foreign secret, ...) read under configuration c / key;
   rs = results of get, get_many, get_match; calls = arguments the instrumented unpickler saw;
   truth = independently computed MACs (harness, hmac module) for the verification oracle *)
Inductive case :=
| CRead (c : cfg) (key blob : string) (lt : ltable) (mt : mtable) (rs : list dres) (calls : list string) (truth : mtable).

(* boolean image of Serializer.verified under the independent MAC table *)
Definition verified_b (truth : mtable) (c : cfg) (key blob p : string) : bool :=
  match signer c with
  | None => false
  | Some (dg, secret) =>
      match split_first "_" blob with
      | None => false
      | Some (sg, p') =>
          let '(dm, sg') := if contains ":" sg
                            then match split_first ":" sg with Some (d, s') => (d, s') | None => (dg, sg) end
                            else (dg, sg) in
          String.eqb p p' && is_label dm && String.eqb (t_mac truth dm secret (key ++ p)) sg'
      end
  end.

Definition safe (r : dres) : bool := match r with DDefault | DUnsecure => true | _ => false end.

Definition judge (c : case) : verdict :=
  match c with
  | CRead c key blob lt mt rs calls truth =>
      let '(r, cl) := decode (t_loads lt) (t_mac mt) default_cdec c key (SBytes blob) in
      (forallb (dres_eqb r) rs && list_eqb String.eqb cl calls,
       forallb (verified_b truth c key blob) calls &&
       (* a blob made of digits only has lost its digest label: outside the property (theorem hypothesis isdigit blob = false) *)
       (if isdigit blob then true else
        if existsb (fun p => verified_b truth c key blob p)
                   (match split_first "_" blob with Some (_, p) => [p] | None => [] end)
        then true else forallb safe rs && match calls with [] => true | _ => false end),
       [])
  end.
Definition explain (c : case) :=
  match c with CRead c key blob lt mt _ _ _ => decode (t_loads lt) (t_mac mt) default_cdec c key (SBytes blob) end.

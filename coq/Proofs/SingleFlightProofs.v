From Cashews Require Import Base.Prelude Model.SingleFlight.
Open Scope nat_scope.

Definition run1 (c : cfg) k : nat :=
  match table c k with
  | Some f => match flights c f with Some fl => if is_running (fphase fl) then 1 else 0 | None => 0 end
  | None => 0
  end.

(* produced c k v : some body specified for key k returns v *)
Definition produced (c : cfg) (k : nat) (v : Z) : Prop := exists g gl, flights c g = Some gl /\ fkey gl = k /\ fout gl = Ret v.

Definition Inv (sh : bool) (c : cfg) : Prop :=
  (forall f, nfl c <= f -> flights c f = None) /\
  (forall f fl, flights c f = Some fl -> is_done (fphase fl) = false -> table c (fkey fl) = Some f) /\
  (forall k f, table c k = Some f -> exists fl, flights c f = Some fl /\ fkey fl = k) /\
  (forall k, running c k = run1 c k) /\
  (forall i f o, callers c i = Got (Some f) o -> exists fl, flights c f = Some fl /\ fphase fl = Done o) /\
  (forall i f, callers c i = Waiting f -> exists fl, flights c f = Some fl /\ table c (fkey fl) = Some f) /\
  (forall f fl o, flights c f = Some fl -> fphase fl = Done o ->
      o = fout fl \/ (exists v, o = Ret v /\ produced c (fkey fl) v) \/ (sh = false /\ o = Cancelled)) /\
  (forall k v, cache c k = Some v -> produced c k v).

Ltac u := unfold upd in *; cbn [fkey fphase fout fyields set_phase] in *;
  repeat match goal with
  | |- context[Nat.eqb ?a ?b] => destruct (Nat.eqb_spec a b)
  | H : context[Nat.eqb ?a ?b] |- _ => destruct (Nat.eqb_spec a b)
  end; subst.

Lemma inv_init sh : Inv sh init.
Proof. unfold Inv, init, run1, produced; cbn. repeat (split; [intros; try discriminate; reflexivity|]). intros; discriminate. Qed.

Lemma produced_mono c c' k v :
  (forall g gl, flights c g = Some gl -> exists gl', flights c' g = Some gl' /\ fkey gl' = fkey gl /\ fout gl' = fout gl) ->
  produced c k v -> produced c' k v.
Proof. intros H (g & gl & G & K & O). destruct (H _ _ G) as (gl' & G' & K' & O'). exists g, gl'. repeat split; congruence. Qed.

Lemma inv_call sh c i k n o : Inv sh c -> Inv sh (fst (step sh c (Call i k n o))).
Proof.
  intros (I0 & I1 & I2 & I3 & I4 & I5 & I6 & I7). cbn [step].
  destruct (callers c i) eqn:Ci; cbn [fst]; try exact (conj I0 (conj I1 (conj I2 (conj I3 (conj I4 (conj I5 (conj I6 I7))))))).
  destruct (table c k) as [f|] eqn:Tk.
  - destruct (flights c f) as [fl|] eqn:Ff; cbn [fst]; [|exact (conj I0 (conj I1 (conj I2 (conj I3 (conj I4 (conj I5 (conj I6 I7)))))))].
    destruct (I2 _ _ Tk) as (fl0 & Ff0 & Kf). rewrite Ff in Ff0. injection Ff0 as <-.
    refine (conj I0 (conj I1 (conj I2 (conj I3 (conj _ (conj _ (conj I6 I7))))))); cbn.
    + intros j g o0 Hj. unfold upd in Hj. destruct (Nat.eqb_spec j i); [|eauto].
      destruct (fphase fl) eqn:P; try discriminate. injection Hj as <- <-. eauto.
    + intros j g Hj. unfold upd in Hj. destruct (Nat.eqb_spec j i); [|eauto].
      destruct (fphase fl) eqn:P; try discriminate; injection Hj as <-; exists fl; split; congruence.
  - cbn [fst]. assert (Fn : flights c (nfl c) = None) by (apply I0; lia).
    assert (Mono : forall g gl, flights c g = Some gl -> upd (flights c) (nfl c) (Some {| fkey := k; fyields := n; fout := o; fphase := Pending |}) g = Some gl).
    { intros g gl G. unfold upd. destruct (Nat.eqb_spec g (nfl c)); [congruence|assumption]. }
    assert (PM : forall k0 v, produced c k0 v -> produced {| table := upd (table c) k (Some (nfl c));
                flights := upd (flights c) (nfl c) (Some {| fkey := k; fyields := n; fout := o; fphase := Pending |}); nfl := S (nfl c);
                cache := cache c; callers := upd (callers c) i (Waiting (nfl c)); running := running c; started := started c |} k0 v).
    { intros k0 v. apply produced_mono. cbn. intros g gl G. exists gl. split; [apply Mono; assumption|split; reflexivity]. }
    refine (conj _ (conj _ (conj _ (conj _ (conj _ (conj _ (conj _ _))))))); cbn.
    + intros g Hg. unfold upd. destruct (Nat.eqb_spec g (nfl c)); [lia|]. apply I0. lia.
    + intros g gl G D. unfold upd in *. destruct (Nat.eqb_spec g (nfl c)).
      * injection G as <-. cbn. rewrite Nat.eqb_refl. congruence.
      * specialize (I1 _ _ G D). destruct (Nat.eqb_spec (fkey gl) k); [congruence|assumption].
    + intros k0 g T. unfold upd in *. destruct (Nat.eqb_spec k0 k).
      * injection T as <-. rewrite Nat.eqb_refl. eexists; split; [reflexivity|]. cbn. congruence.
      * destruct (I2 _ _ T) as (gl & G & K). destruct (Nat.eqb_spec g (nfl c)); [congruence|eauto].
    + intros k0. rewrite I3. unfold run1; cbn. unfold upd. destruct (Nat.eqb_spec k0 k).
      * subst. rewrite Tk, Nat.eqb_refl. reflexivity.
      * destruct (table c k0) as [g|] eqn:T; [|reflexivity]. destruct (I2 _ _ T) as (gl & G & K).
        destruct (Nat.eqb_spec g (nfl c)); [congruence|reflexivity].
    + intros j g o0 Hj. unfold upd in Hj. destruct (Nat.eqb_spec j i); [discriminate|].
      destruct (I4 _ _ _ Hj) as (gl & G & P). exists gl. split; [apply Mono|]; assumption.
    + intros j g Hj. unfold upd in Hj. destruct (Nat.eqb_spec j i).
      * injection Hj as <-. eexists. unfold upd. rewrite Nat.eqb_refl. split; [reflexivity|]. cbn. rewrite Nat.eqb_refl. reflexivity.
      * destruct (I5 _ _ Hj) as (gl & G & T). exists gl. split; [apply Mono; assumption|].
        unfold upd. destruct (Nat.eqb_spec (fkey gl) k); [congruence|assumption].
    + intros g gl o0 G P. unfold upd in G. destruct (Nat.eqb_spec g (nfl c)).
      * injection G as <-. discriminate.
      * destruct (I6 _ _ _ G P) as [H|[(v & -> & H)|H]]; [left; assumption| |right; right; assumption].
        right; left. exists v. split; [reflexivity|]. apply PM. assumption.
    + intros k0 v Hc. apply PM. apply I7. assumption.
Qed.

Lemma inv_finish sh c f fl o :
  Inv sh c -> flights c f = Some fl -> is_done (fphase fl) = false ->
  (o = fout fl \/ (exists v, o = Ret v /\ produced c (fkey fl) v) \/ (sh = false /\ o = Cancelled)) ->
  Inv sh (finish c f fl o (is_running (fphase fl))).
Proof.
  intros (I0 & I1 & I2 & I3 & I4 & I5 & I6 & I7) Ff ND Prov.
  assert (Tf : table c (fkey fl) = Some f) by (apply I1; assumption).
  assert (Mono : forall g gl, flights c g = Some gl -> exists gl', upd (flights c) f (Some (set_phase fl (Done o))) g = Some gl' /\ fkey gl' = fkey gl /\ fout gl' = fout gl).
  { intros g gl G. unfold upd. destruct (Nat.eqb_spec g f).
    - subst. rewrite Ff in G. injection G as <-. eexists; split; [reflexivity|]. split; reflexivity.
    - exists gl. auto. }
  assert (PM : forall k0 v, produced c k0 v -> produced (finish c f fl o (is_running (fphase fl))) k0 v).
  { intros k0 v. apply produced_mono. exact Mono. }
  unfold finish. refine (conj _ (conj _ (conj _ (conj _ (conj _ (conj _ (conj _ _))))))); cbn.
  - intros g Hg. unfold upd. destruct (Nat.eqb_spec g f); [|apply I0; assumption]. subst. rewrite (I0 _ Hg) in Ff. discriminate.
  - intros g gl G D. unfold upd in G. destruct (Nat.eqb_spec g f).
    + injection G as <-. discriminate.
    + apply I1; assumption.
  - intros k0 g T. destruct (I2 _ _ T) as (gl & G & K). unfold upd. destruct (Nat.eqb_spec g f).
    + subst g. rewrite Ff in G. injection G as <-. eexists; split; [reflexivity|exact K].
    + eauto.
  - intros k0. unfold run1; cbn. destruct (Nat.eq_dec k0 (fkey fl)) as [->|Hk].
    + rewrite Tf. unfold upd at 2. rewrite Nat.eqb_refl. cbn.
      specialize (I3 (fkey fl)). unfold run1 in I3. rewrite Tf, Ff in I3.
      destruct (is_running (fphase fl)); [unfold upd; rewrite Nat.eqb_refl; rewrite I3; reflexivity|exact I3].
    + assert (R : (if is_running (fphase fl) then upd (running c) (fkey fl) (Nat.pred (running c (fkey fl))) else running c) k0 = running c k0).
      { destruct (is_running (fphase fl)); [|reflexivity]. unfold upd. destruct (Nat.eqb_spec k0 (fkey fl)); [contradiction|reflexivity]. }
      rewrite R, I3. unfold run1. destruct (table c k0) as [g|] eqn:T; [|reflexivity].
      destruct (I2 _ _ T) as (gl & G & K). unfold upd. destruct (Nat.eqb_spec g f); [|reflexivity].
      subst g. rewrite Ff in G. injection G as <-. congruence.
  - intros j g o0 Hj. destruct (I4 _ _ _ Hj) as (gl & G & P). unfold upd. destruct (Nat.eqb_spec g f).
    + subst g. rewrite Ff in G. injection G as <-. rewrite P in ND. discriminate.
    + eauto.
  - intros j g Hj. destruct (I5 _ _ Hj) as (gl & G & T). unfold upd. destruct (Nat.eqb_spec g f).
    + subst g. rewrite Ff in G. injection G as <-. eexists; split; [reflexivity|exact T].
    + eauto.
  - intros g gl o0 G P. unfold upd in G. destruct (Nat.eqb_spec g f).
    + injection G as <-. cbn in P. injection P as <-. cbn.
      destruct Prov as [H|[(v & -> & H)|H]]; [left; assumption| |right; right; assumption].
      right; left. exists v. split; [reflexivity|]. apply PM in H. exact H.
    + destruct (I6 _ _ _ G P) as [H|[(v & -> & H)|H]]; [left; assumption| |right; right; assumption].
      right; left. exists v. split; [reflexivity|]. apply PM in H. exact H.
  - intros k0 v Hc.
    assert (Old : cache c k0 = Some v -> produced (finish c f fl o (is_running (fphase fl))) k0 v) by (intro H; apply PM, I7; exact H).
    destruct o as [v0|e|]; try (apply Old; exact Hc).
    unfold upd in Hc. destruct (Nat.eqb_spec k0 (fkey fl)); [|apply Old; exact Hc]. injection Hc as ->. subst k0.
    destruct Prov as [H|[(v' & E & H)|(_ & E)]]; [| |discriminate].
    + exists f, (set_phase fl (Done (Ret v))). cbn. unfold upd. rewrite Nat.eqb_refl. auto.
    + injection E as ->. apply PM. exact H.
Qed.

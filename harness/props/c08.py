"""C08: cache keys are canonical per bound arguments and separate different arguments."""
import inspect
import itertools

from harness import vclock
from harness.core import C, S, Some, Z

ID = "C08"
RUN_MODULE = "Model.Key Run.C08"
EXPLAIN = "explain"
RULE = ("function signatures of 1-4 parameters over {positional-or-keyword, keyword-only, *args, **kwargs} with/without defaults; automatic and "
        "explicit templates; argument values from {'a','','b:c',0,1,True,None,b'x',('a','b'),{'k':1}}; group1 = every equivalent call form "
        "(positional / keyword / defaulted parameters omitted, checked equivalent with inspect.Signature.bind independently of cashews) of one "
        "call, group2 = the forms of a call differing in one template-mentioned parameter by a separable value; keys obtained from "
        "get_cache_key and from the backend key a decorated call writes. non-trivial: group1 has >= 2 forms, at least one keyword-only or "
        "default-omitting")
TRUSTED_BASE = ["Coq 8.16.1 kernel + vm_compute", "hand-written model coq/Model/Key.v (incl. a model of inspect.Signature.bind + apply_defaults) tied by this differential run",
                "str.format / string.Formatter for plain {name} fields is modelled"]
ASSUMPTIONS = ["plain {name} fields only: attribute/index fields, format functions (:hash, :len, :jwt), key_context and custom type formats are not modelled",
               "no positional-only parameters; sets excluded (iteration order); extra *args/**kwargs values are atoms"]
EXHAUSTIVE = {"quick": False, "thorough": False}

VALS = ["a", "", "b:c", 0, 1, True, None, b"x", ("a", "b"), {"k": 1}, "z", 7, False, {"k": 1, "j": 2}, {"j": 2, "k": 1}]      # the last two: one dict, two insertion orders
ATOMS = ["a", "", "b:c", 0, 1, True, None, b"x", "q"]
SEPARABLE = [("a", "z"), (0, 1), (1, 7), (True, False), ("q", "a"), (b"x", b"y"), (("a", "b"), ("a", "c")), ({"k": 1}, {"k": 2}), (("a", "b"), ("a",))]
NAMES = ["a", "b", "c", "d"]


def kv(v):
    if isinstance(v, tuple): return C("KTuple", [atom(x) for x in v])
    if isinstance(v, dict): return C("KDict", [(S(k), atom(x)) for k, x in v.items()])
    return C("KA", atom(v))


def atom(v):
    if v is None: return C("ANone")
    if isinstance(v, bool): return C("ABool", v)
    if isinstance(v, int): return C("AInt", Z(v))
    if isinstance(v, bytes): return C("ABytes", S(v.decode()))
    if isinstance(v, str): return C("AStr", S(v))
    raise TypeError(v)


SELFISH = ["s", "el", "f", "lf"]      # parameter names that are substrings of "self"


def gen_sig(rng, pool=NAMES):
    n = rng.randint(1, 4)
    names = pool[:n]
    params = []
    phase = 0  # 0 PK without default, 1 PK with default, 2 after *args / kw-only
    has_vp = has_vk = False
    for i, nm in enumerate(names):
        r = rng.random()
        if not has_vk and i == n - 1 and r < 0.2:
            params.append({"name": "kw", "kind": "VK", "default": None}); has_vk = True; continue
        if phase < 2 and not has_vp and r < 0.35 and i > 0:
            params.append({"name": "ar", "kind": "VP", "default": None}); has_vp = True; phase = 2; continue
        if phase < 2 and r < 0.45 and i > 0 and not has_vp:
            phase = 2  # bare * : following are keyword-only
        if phase == 2:
            d = rng.choice(VALS) if rng.random() < 0.6 else "<nodefault>"
            params.append({"name": nm, "kind": "KO", "default": d})
        else:
            if phase == 1 or rng.random() < 0.4:
                phase = 1
                params.append({"name": nm, "kind": "PK", "default": rng.choice(VALS)})
            else:
                params.append({"name": nm, "kind": "PK", "default": "<nodefault>"})
    return params


def sig_src(params, method=False):
    parts, star = (["self"] if method else []), False
    for p in params:
        if p["kind"] == "VP": parts.append("*ar"); star = True
        elif p["kind"] == "VK": parts.append("**kw")
        else:
            if p["kind"] == "KO" and not star:
                parts.append("*"); star = True
            parts.append(p["name"] if p["default"] == "<nodefault>" else f"{p['name']}={p['default']!r}")
    return "async def fn(" + ", ".join(parts) + "):\n    CALLS.append(1)\n    return 1\n"


def make_fn(params, method=False):
    ns = {"CALLS": []}
    exec(sig_src(params, method), ns)
    fn = ns["fn"]
    fn.__module__ = "m"
    return fn, ns["CALLS"]


def forms(params, full_args, full_kwargs_extra, surplus):
    """every call form equivalent to the canonical call: values of named params in full_args (dict)"""
    pk = [p for p in params if p["kind"] == "PK"]
    ko = [p for p in params if p["kind"] == "KO"]
    out = []
    max_pos = len(pk)
    pos_range = [max_pos] if surplus else range(0, max_pos + 1)
    for npos in pos_range:
        rest = pk[npos:] + ko
        omittable = [p for p in rest if p["default"] != "<nodefault>" and _same(p["default"], full_args[p["name"]])]
        for k in range(0, len(omittable) + 1):
            for om in itertools.combinations(omittable, k):
                omn = {p["name"] for p in om}
                args = [full_args[p["name"]] for p in pk[:npos]] + list(surplus)
                kwargs = {p["name"]: full_args[p["name"]] for p in rest if p["name"] not in omn}
                kwargs.update(full_kwargs_extra)
                out.append((args, kwargs))
    return out


def _same(a, b):
    return type(a) is type(b) and a == b


def gen_cases(rng, tier):
    cases = []
    n = 700 if tier == "quick" else 8000
    while len(cases) < n:
        method = rng.random() < 0.15       # a method decorated through noself(): `self` is left out of the key, nothing else is
        params = gen_sig(rng, rng.choice([SELFISH, NAMES]) if method else NAMES)
        named = [p for p in params if p["kind"] in ("PK", "KO")]
        has_vp = any(p["kind"] == "VP" for p in params)
        has_vk = any(p["kind"] == "VK" for p in params)
        full = {p["name"]: (p["default"] if p["default"] != "<nodefault>" and rng.random() < 0.5 else rng.choice(VALS)) for p in named}
        surplus = [rng.choice(ATOMS) for _ in range(rng.randint(0, 2))] if has_vp and rng.random() < 0.5 else []
        extra = {rng.choice(["x", "y", "w", "kw"]): rng.choice(ATOMS) for _ in range(rng.randint(0, 2))} if has_vk and rng.random() < 0.6 else {}      # "kw": an extra keyword named like the ** parameter itself
        # template
        mode = "noself" if method else rng.choice(["auto", "auto", "explicit", "decor"])
        tmpl = None
        if mode == "explicit":
            fs = [p["name"] for p in named if rng.random() < 0.7] or ([named[0]["name"]] if named else [])
            if has_vk and rng.random() < 0.3: fs.append("__kwargs__")
            if has_vp and rng.random() < 0.3: fs.append("__args__")
            tmpl = ["k"] + fs
        # group2: differ in one mentioned, separable parameter
        g2 = None
        mentioned = [p["name"] for p in named] if tmpl is None else [f for f in tmpl[1:] if not f.startswith("__")]
        surplus2 = None
        args_mentioned = has_vp and (tmpl is None or "__args__" in tmpl)
        if args_mentioned and rng.random() < 0.35:
            # group2 differs only in the surplus positional arguments (tuples of separable atoms)
            surplus = [rng.choice([0, 1, True, False, "q", 7]) for _ in range(rng.randint(0, 2))]
            surplus2 = surplus + [rng.choice([0, False, 1, "z"])] if rng.random() < 0.7 or not surplus else surplus[:-1] + [rng.choice(["zz", 5])]
            g2 = dict(full)
        elif mentioned and rng.random() < 0.8:
            pn = rng.choice(mentioned)
            v1, v2 = rng.choice(SEPARABLE)
            full = dict(full); full[pn] = v1
            full2 = dict(full); full2[pn] = v2
            g2 = full2
            for p in params:  # let group2 omit the parameter: a later call must see the declared default, not an earlier call's value
                if p["name"] == pn and p["default"] != "<nodefault>" and rng.random() < 0.6:
                    p["default"] = v2
        params = [dict(p, default=(p["default"] if p["default"] == "<nodefault>" else _jv(p["default"]))) for p in params]
        fmt = None
        if mode == "explicit" and rng.random() < 0.35:
            fmt = rng.choice(["hash", "hash", "hash(sha1)", "lower", "len"])      # a format function on every field: outside the model, judged by the oracle alone
            fields = [f for f in tmpl[1:] if not f.startswith("__")]
            if fields and rng.random() < 0.6:      # a dict-valued field under the format function (its forms build the dict in both orders)
                pn = rng.choice(fields)
                if g2 is None or full.get(pn) == g2.get(pn):
                    full = dict(full); full[pn] = {"k": 1, "j": 2}
                    if g2 is not None:
                        g2 = dict(g2); g2[pn] = {"k": 1, "j": 2}
        cases.append({"params": params, "full": _j(full), "surplus": _jl(surplus), "extra": _j(extra), "mode": mode, "tmpl": tmpl, "fmt": fmt,
                      "full2": _j(g2) if g2 is not None else None, "given": rng.random() < 0.9,
                      "surplus2": _jl(surplus2) if surplus2 is not None else None, "ctx_left_by_exception": rng.random() < 0.25})
    # a `**` parameter whose template field carries a format function or is the whole template, called with surplus keywords
    # in every form (no positional argument at all included)
    for i in range(24):
        params = [{"name": "a", "kind": "PK", "default": ["<nodefault>", "z", 0][i % 3]}, {"name": "kw", "kind": "VK", "default": None}]
        fmt = [None, "hash", "hash", "lower"][i % 4]
        extra = [{"x": "q"}, {"x": 1, "y": "a"}, {"w": ""}][i % 3]
        cases.append({"params": params, "full": _j({"a": ["a", 7][i % 2]}), "surplus": [], "extra": _j(extra), "mode": "explicit",
                      "tmpl": ["k", "a", "__kwargs__"] if i % 2 else ["k", "__kwargs__"], "fmt": fmt,
                      "full2": _j({"a": ["z", 1][i % 2]}) if i % 2 else None, "given": True, "surplus2": None, "ctx_left_by_exception": False})
    # an int and the bool equal to it are different arguments (True -> 'true', 1 -> '1'): same function, first one, then the other
    for i in range(16):
        params = [{"name": "a", "kind": "PK", "default": "<nodefault>"}, {"name": "b", "kind": ["PK", "KO"][i % 2], "default": [0, "z"][(i // 2) % 2]}]
        v1, v2 = [(True, 1), (1, True), (False, 0), (0, False)][i % 4]
        bd = params[1]["default"]
        cases.append({"params": params, "full": _j({"a": v1, "b": bd}), "surplus": [], "extra": {}, "mode": ["auto", "decor", "explicit", "auto"][(i // 4) % 4],
                      "tmpl": ["k", "a"] if (i // 4) % 4 == 2 else None, "fmt": None, "full2": _j({"a": v2, "b": bd}), "given": True, "surplus2": None,
                      "ctx_left_by_exception": False})
    return cases


def _j(d):
    return None if d is None else {k: _jv(v) for k, v in d.items()}


def _jl(l):
    return [_jv(v) for v in l]


def _jv(v):
    if isinstance(v, bytes): return {"b": v.decode()}
    if isinstance(v, tuple): return {"t": [_jv(x) for x in v]}
    if isinstance(v, dict): return {"d": {k: _jv(x) for k, x in v.items()}}
    return v


def _uv(v):
    if isinstance(v, dict):
        if "b" in v and len(v) == 1 and isinstance(v["b"], str): return v["b"].encode()
        if "t" in v: return tuple(_uv(x) for x in v["t"])
        if "d" in v: return {k: _uv(x) for k, x in v["d"].items()}
    return v


def _params(case):
    ps = []
    for p in case["params"]:
        q = dict(p)
        if q["default"] != "<nodefault>":
            q["default"] = _uv(q["default"])
        ps.append(q)
    return ps


def run_impl(case):
    params = _params(case)
    method = case["mode"] == "noself"
    fn, calls = make_fn(params, method)
    sig = inspect.signature(fn)
    inst = object()

    async def go():
        from cashews import Cache
        from cashews.key import get_cache_key, get_cache_key_template
        out = {"g1": [], "g2": []}
        cache = Cache()
        mem = cache.setup("mem://?check_interval=0")
        await cache.init()
        mode = case["mode"]
        if case["tmpl"] is None:
            tstr = get_cache_key_template(fn)
        else:
            sfx = ":" + case["fmt"] if case.get("fmt") else ""
            tstr = case["tmpl"][0] + "".join(":{" + f + sfx + "}" for f in case["tmpl"][1:])
            tstr = get_cache_key_template(fn, key=tstr)
        out["template"] = tstr
        seen = []
        orig_set = mem.set

        async def spy_set(key, value, *a, **k):
            seen.append(key)
            return await orig_set(key, value, *a, **k)
        mem.set = spy_set
        # (every other decorated case goes through the time_condition wrapper, which must keep the function's signature and name)
        dec = (cache(ttl=100, time_condition=-1)(fn) if len(params) % 2 else cache(ttl=100)(fn)) if mode == "decor" else None
        if method:
            from cashews import noself
            dec = noself(cache)(ttl=100)(fn)
        if case.get("ctx_left_by_exception"):
            # a key-context block naming the function's own parameters (rewrite mode, as @invalidate uses it) that is left by an
            # exception earlier in the same task: the key of a later call must depend on that call's arguments only
            import warnings
            from cashews.key_context import context as kc_context
            with warnings.catch_warnings():
                warnings.simplefilter("ignore")
                try:
                    with kc_context(rewrite=True, **{p["name"]: "poison" for p in params if p["kind"] in ("PK", "KO")}):
                        raise RuntimeError("the block fails")
                except RuntimeError:
                    pass
        for gname, full in (("g1", case["full"]), ("g2", case["full2"])):
            if full is None:
                continue
            fullv = {k: _uv(v) for k, v in full.items()}
            sur = case["surplus2"] if gname == "g2" and case.get("surplus2") is not None else case["surplus"]
            fs = forms(params, fullv, {k: _uv(v) for k, v in case["extra"].items()}, [_uv(v) for v in sur])
            if gname == "g2":  # calls that omit defaulted parameters first: they must not see values left by earlier keyword calls
                fs = sorted(fs, key=lambda f: (len(f[1]), len(f[0])))
            ref = None
            if len(fs) > 12:      # a spread over the enumeration: mostly-keyword forms come first, fully positional ones last
                fs = fs[:6] + fs[-6:]
            for n_form, (args, kwargs) in enumerate(fs):
                if n_form % 2:      # the same call with its keywords given in the opposite order, and dict values built in the opposite order
                    kwargs = dict(reversed(list(kwargs.items())))
                    kwargs = {n: (dict(reversed(list(v.items()))) if isinstance(v, dict) else v) for n, v in kwargs.items()}
                    args = [(dict(reversed(list(v.items()))) if isinstance(v, dict) else v) for v in args]
                try:
                    ba = sig.bind(*(([inst] if method else []) + list(args)), **kwargs); ba.apply_defaults()
                except TypeError:
                    continue
                def canon(v):      # equal arguments whatever the order a dict was built in
                    return repr(sorted(v.items(), key=repr)) if isinstance(v, dict) else repr(v)
                key_args = repr(sorted((k, canon(v), type(v).__name__) for k, v in ba.arguments.items()))
                if ref is None: ref = key_args
                if key_args != ref:
                    continue  # not equivalent (should not happen)
                try:
                    if mode in ("decor", "noself"):
                        await mem.clear(); del seen[:]
                        names = [p["name"] for p in params if p["kind"] in ("PK", "KO") and p["name"].isidentifier()]
                        if mode == "decor" and names and n_form % 4 == 3:
                            # the call is made from inside an @invalidate function whose parameters bear the same names with other
                            # values: the key of the inner call must depend on the inner call's arguments only
                            ns = {}
                            exec("async def outer(" + ", ".join(names) + "):\n    return await INNER()\n", ns)
                            async def INNER():
                                return await dec(*list(args), **kwargs)
                            ns["INNER"] = INNER
                            outer = cache.invalidate("zz-no-such-key:{" + names[0] + "}")(ns["outer"])
                            await outer(*["poison" for _ in names])
                        else:
                            await dec(*(([inst] if method else []) + list(args)), **kwargs)
                        k = seen[0] if seen else None
                    else:
                        k = get_cache_key(fn, tstr if case["given"] else None, tuple(args), dict(kwargs))
                except Exception as e:  # noqa
                    k = None
                out[gname].append([[_jv(a) for a in args], {n: _jv(v) for n, v in kwargs.items()}, k])
        await cache.close()
        return out
    return vclock.run(go)


def _tmpl_coq(case, obs):
    params = case["params"]
    given = True if case["mode"] in ("decor", "noself") else bool(case["given"])
    if case["tmpl"] is None or not given:   # get_cache_key(func, None, ...) falls back to the automatic template
        segs = [C("Lit", S("m:fn"))]
        for p in params:
            if p["kind"] == "VP": segs += [C("Lit", S(":")), C("Fld", S("__args__"))]
            elif p["kind"] == "VK": segs += [C("Lit", S(":")), C("Fld", S("__kwargs__"))]
            else: segs += [C("Lit", S(":" + p["name"] + ":")), C("Fld", S(p["name"]))]
        return segs
    segs = [C("Lit", S(case["tmpl"][0]))]
    for f in case["tmpl"][1:]:
        segs += [C("Lit", S(":")), C("Fld", S(f))]
    return segs


def to_coq(case, obs):
    ps = []
    for p in _params(case):
        d = None if p["default"] == "<nodefault>" or p["kind"] in ("VP", "VK") else Some(kv(p["default"]))
        ps.append(C("Build_param", S(p["name"]), C(p["kind"]), d))

    def grp(g):
        return [(([kv(_uv(a)) for a in args], [(S(n), kv(_uv(v))) for n, v in kwargs.items()]), None if k is None else Some(S(k))) for args, kwargs, k in g]
    given = True if case["mode"] in ("decor", "noself") else bool(case["given"])
    sep = bool(obs["g2"]) and bool(obs["g1"])
    if case.get("fmt"):
        return C("CKeyOpaque", grp(obs["g1"]), grp(obs["g2"]), sep and case["fmt"].startswith("hash") and given)
    return C("CKey", ps, _tmpl_coq(case, obs), given, grp(obs["g1"]), grp(obs["g2"]), sep)


def nontrivial(case, obs):
    return len(obs["g1"]) >= 2 and any(len(kw) < sum(1 for p in case["params"] if p["kind"] in ("PK", "KO")) - len(a) or not a for a, kw, _ in obs["g1"])


def classify(case, obs):
    return {"mode_" + case["mode"]: 1, "forms_g1": len(obs["g1"]), "forms_g2": len(obs["g2"]), "params": len(case["params"]),
            "has_vp": int(any(p["kind"] == "VP" for p in case["params"])), "has_vk": int(any(p["kind"] == "VK" for p in case["params"])),
            "has_ko": int(any(p["kind"] == "KO" for p in case["params"]))}


def shrink(case):
    if case["full2"] is not None:
        c = dict(case); c["full2"] = None; yield c
    if case["extra"]:
        c = dict(case); c["extra"] = {}; yield c
    if case["surplus"]:
        c = dict(case); c["surplus"] = []; yield c
    if case["mode"] != "auto":
        c = dict(case); c["mode"] = "auto"; c["tmpl"] = None; yield c
    ps = case["params"]
    for i in range(len(ps)):
        if len(ps) > 1:
            c = dict(case); c["params"] = ps[:i] + ps[i + 1:]
            nm = ps[i]["name"]
            c["full"] = {k: v for k, v in case["full"].items() if k != nm}
            if case["full2"]: c["full2"] = {k: v for k, v in case["full2"].items() if k != nm}
            if case["tmpl"]: c["tmpl"] = [f for f in case["tmpl"] if f != nm]
            if ps[i]["kind"] == "VP": c["surplus"] = []; c["tmpl"] = [f for f in (c["tmpl"] or []) if f != "__args__"] or None
            if ps[i]["kind"] == "VK": c["extra"] = {}; c["tmpl"] = [f for f in (c["tmpl"] or []) if f != "__kwargs__"] or None
            if c["tmpl"] is None and case["mode"] == "explicit":
                continue
            yield c

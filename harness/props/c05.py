"""C05: concurrent transactions commit exactly their own writes; no lost increments; serializable write phases."""
import asyncio

from harness import sched, vclock
from harness.core import C, Nat, Some, Z

ID = "C05"
RUN_MODULE = "Model.TxnConc Run.C05"
EXPLAIN = "explain"
RULE = ("2-4 real asyncio tasks, each a program of 1-3 items: a direct cache command, or a transactional block (mode fast / locked / serializable; "
        "form: context manager, ONE shared decorated function called by all tasks, context manager nested in either, decorated function nested in "
        "either, one context object entered again inside itself, a context manager with an explicit commit() / rollback() in the middle of its body; "
        "1-4 commands get / set / set-if / incr / delete / expire / sleep over keys k0..k2; ends normally, raises an exception or is left by CancelledError), transaction timeout 0.35-0.75 s; every "
        "get / set / incr / delete / delete_many / set_many / set_lock / unlock reaching the Memory instance is gated, the unlocks issued through "
        "gather are separate tasks; the schedule (which parked command runs next, when the clock advances to the next timer - the 0.1 s of the lock "
        "wait loop, a sleep in a body) is a seeded list of choices; thorough tier: EVERY schedule of selected 2-task programs per mode. Observed: each "
        "backend command with its result, instant and the store right after it; how each item ended for its caller. non-trivial: two tasks were "
        "inside blocks at the same time and one of them had to wait for a lock or both wrote the same key")
TRUSTED_BASE = ["Coq 8.16.1 kernel + vm_compute", "hand-written model coq/Model/TxnConc.v tied by replaying the observed command log (the model's local steps are settled between commands)",
                "asyncio task switching, contextvars and gather are the interpreter's; the scheduler only chooses among parked commands and observes",
                "in-memory backend commands are atomic (no await inside); lock tokens are uuid4 (distinct: assumption)"]
ASSUMPTIONS = ["one backend", "integer values, data without TTL", "tasks are created outside any transaction (a task created inside a block inherits its context: outside the property)",
               "no-lost-increments / serializable phases are judged only on runs in which no lock lapsed while held (the property's proviso)"]
EXHAUSTIVE = {"quick": False, "thorough": True}
UNIV = [0, 1, 2]
UNIT = 0.05


class Boom(Exception):
    pass


def attempts(timeout):
    wait, n = timeout, 0
    while wait > 0.0:
        wait -= 0.1
        wait = round(wait, 1)
        n += 1
    return n


def _rand_cmd(rng, keys):
    r = rng.random()
    k = rng.choice(keys)
    if r < 0.2: return ["get", k]
    if r < 0.32: return ["put", k, rng.randint(1, 9)]
    if r < 0.4: return ["putif", k, rng.randint(1, 9), rng.random() < 0.6 and False or rng.random() < 0.5]
    if r < 0.8: return ["incr", k, rng.choice([1, 1, 2, 5])]
    if r < 0.9: return ["del", k]
    if r < 0.94: return ["touch", k]
    return ["sleep", rng.choice([1, 2, 4, 8])]


def _rand_case(rng):
    keys = rng.choice([[0], [0, 1], [0, 1, 2]])
    nt = rng.randint(2, 4)
    mode = rng.choice(["fast", "locked", "serializable"])
    tasks = []
    for _ in range(nt):
        prog = []
        for _ in range(rng.randint(1, 3)):
            if rng.random() < 0.2:
                prog.append({"kind": "direct", "cmd": _rand_cmd(rng, keys)})
            else:
                prog.append({"kind": "txn", "mode": mode if rng.random() < 0.8 else rng.choice(["fast", "locked", "serializable"]),
                             "form": rng.choice(["ctx", "decor", "decor", "ctx_in_ctx", "decor_in_decor", "ctx_in_decor", "decor_in_ctx", "ctx_reentered", "ctx_midcommit", "ctx_midrollback"]),
                             "cmds": [_rand_cmd(rng, keys) for _ in range(rng.randint(1, 4))], "raise": rng.choice([False, False, False, False, False, False, False, True, True, "cancel"])})
        tasks.append(prog)
    return {"timeout": rng.choice([0.35, 0.55, 0.75]), "init": {str(k): rng.randint(0, 9) for k in keys if rng.random() < 0.6},
            "tasks": tasks, "schedule": [rng.randrange(12) for _ in range(rng.choice([0, 10, 40, 40]))]}


def _counter_case(rng):
    """the shape the property singles out: N tasks incrementing one counter through one shared decorated function"""
    mode = rng.choice(["locked", "serializable"])
    nt = rng.randint(2, 4)
    tasks = [[{"kind": "txn", "mode": mode, "form": rng.choice(["decor", "decor", "ctx", "decor_in_decor", "ctx_midcommit"]),
               "cmds": ([["putif", 2, 1, False]] if rng.random() < 0.3 else []) + ([["touch", 0]] if rng.random() < 0.25 else []) + [["incr", 0, rng.choice([1, 2])]] +
                       ([["incr", rng.choice([0, 1]), 1]] if rng.random() < 0.4 else []),
               "raise": rng.random() < 0.15}
              for _ in range(rng.randint(1, 2))] for _ in range(nt)]
    return {"timeout": 0.75, "init": {"0": rng.randint(0, 5)}, "tasks": tasks, "schedule": [rng.randrange(12) for _ in range(40)]}


ENUM = {}


def _enumerate(base, max_leaves):
    def run_fn(prefix):
        return _run(dict(base, schedule=list(prefix)))[1]
    leaves, complete = sched.enumerate_schedules(run_fn, max_leaves)
    return [dict(base, schedule=p) for p in leaves], complete


def gen_cases(rng, tier):
    n = 300 if tier == "quick" else 3000
    cases = [_rand_case(rng) for _ in range(n)] + [_counter_case(rng) for _ in range(n // 3)]
    if tier == "thorough":
        for mode in ("fast", "locked", "serializable"):
            progs = {
                "incr+incr": [[{"kind": "txn", "mode": mode, "form": "decor", "cmds": [["incr", 0, 1]], "raise": False}],
                              [{"kind": "txn", "mode": mode, "form": "decor", "cmds": [["incr", 0, 2]], "raise": False}]],
                "crossing": [[{"kind": "txn", "mode": mode, "form": "ctx", "cmds": [["put", 0, 1], ["incr", 1, 1]], "raise": False}],
                             [{"kind": "txn", "mode": mode, "form": "decor", "cmds": [["del", 1], ["put", 0, 2]], "raise": True}]],
                "direct-vs-block": [[{"kind": "txn", "mode": mode, "form": "decor_in_ctx", "cmds": [["incr", 0, 1], ["get", 1]], "raise": False}],
                                    [{"kind": "direct", "cmd": ["put", 1, 7]}, {"kind": "direct", "cmd": ["incr", 0, 5]}]],
            }
            for name, tasks in progs.items():
                cs, done = _enumerate({"timeout": 0.15 if name == "crossing" else 0.35, "init": {"0": 3}, "tasks": tasks}, 20000)
                ENUM[f"{mode}/{name}"] = [len(cs), done]
                cases += cs
    return cases


def enumeration_report():
    return dict(ENUM) or None


def exhaustive_ok():
    return all(done for _, done in ENUM.values())


def _keyname(k):
    return f"k{k}"


def _lockno(key):
    if key == ":serializable:lock": return 0
    if key.startswith(":tx_lock:k"): return 1 + int(key[len(":tx_lock:k"):])
    return 99


def _run(case):
    T = case["timeout"]

    def hook(task):
        cur = None
        try:
            cur = asyncio.current_task()
        except RuntimeError:
            pass
        if cur is not None and cur.get_name().startswith("W") and not task.get_name().startswith("W"):
            n = getattr(cur, "_c05_children", 0)
            cur._c05_children = n + 1
            task.set_name(f"{cur.get_name()}.{n}")

    def main_factory(drv):
        log = drv.events

        async def main():
            from cashews import Cache, LockedError
            from cashews.wrapper.transaction import TransactionMode
            MODES = {"fast": TransactionMode.FAST, "locked": TransactionMode.LOCKED, "serializable": TransactionMode.SERIALIZABLE}
            cache = Cache()
            mem = cache.setup("mem://?check_interval=0&size=100000")
            await cache.init()
            for k, v in case["init"].items():
                await mem.set(_keyname(k), v)

            def tick():
                return round((vclock.Clock.now - vclock.BASE) / UNIT)

            def snap():
                out = []
                for k in UNIV:
                    e = mem.store.get(_keyname(k))
                    out.append(None if e is None or (e[0] is not None and e[0] <= vclock.Clock.now) else e[1])
                return out

            def who():
                return int(asyncio.current_task().get_name()[1:].split(".")[0])
            inside = set()

            def wrap(name):
                orig = getattr(mem, name)

                async def w(*a, **kw):
                    tname = asyncio.current_task().get_name()
                    if tname in inside or not tname.startswith("W"):
                        return await orig(*a, **kw)
                    inside.add(tname)
                    try:
                        await drv.gate(name)
                        before = snap()
                        r = await orig(*a, **kw)
                        key = a[0] if a and isinstance(a[0], str) else kw.get("key", "")
                        if name in ("set_lock", "unlock"):
                            log.append(["cmd", tick(), who(), name, _lockno(key), int(bool(r)), _lockno(key), snap()])
                        elif name == "get":
                            kn = int(key[1:])
                            log.append(["cmd", tick(), who(), "get", kn, before[UNIV.index(kn)], 0, snap()])
                        elif name in ("delete_many", "set_many"):
                            log.append(["cmd", tick(), who(), name, 0, None, 0, snap()])
                        elif name == "set":
                            exist = kw.get("exist", a[3] if len(a) > 3 else None)
                            log.append(["cmd", tick(), who(), "set", int(key[1:]), None if exist is None else int(bool(r)), 0, snap()])
                        elif name == "exists":
                            log.append(["cmd", tick(), who(), "exists", int(key[1:]), int(bool(r)), 0, snap()])
                        elif name == "incr":
                            log.append(["cmd", tick(), who(), "incr", int(key[1:]), r, 0, snap()])
                        elif name == "delete":
                            log.append(["cmd", tick(), who(), "delete", int(key[1:]), int(bool(r)), 0, snap()])
                        elif name == "expire":
                            log.append(["cmd", tick(), who(), "expire", int(key[1:]), None, 0, snap()])
                        else:
                            log.append(["cmd", tick(), who(), name, 98, None, 0, snap()])     # a command the model does not expect
                        return r
                    finally:
                        inside.discard(tname)
                setattr(mem, name, w)
            for name in ("set_lock", "unlock", "get", "set", "incr", "delete", "delete_many", "set_many", "exists", "get_many", "expire"):
                wrap(name)

            async def do(cmd):
                op = cmd[0]
                if op == "get": return await cache.get(_keyname(cmd[1]))
                if op == "put":
                    await cache.set(_keyname(cmd[1]), cmd[2]); return None
                if op == "putif": return int(bool(await cache.set(_keyname(cmd[1]), cmd[2], exist=cmd[3])))
                if op == "incr": return await cache.incr(_keyname(cmd[1]), cmd[2])
                if op == "del": return int(bool(await cache.delete(_keyname(cmd[1]))))
                if op == "touch": return await cache.expire(_keyname(cmd[1]), 0)      # a write command that changes no value
                await asyncio.sleep(cmd[1] * 0.1); return None

            async def body(cmds, fail, res):
                for c in cmds:
                    res.append(await do(c))
                if fail == "cancel":
                    raise asyncio.CancelledError(res)      # the block is left by a BaseException that is not an Exception
                if fail:
                    raise Boom(res)
                return res
            DEC, DEC2 = {}, {}
            for m, tm in MODES.items():
                DEC[m] = cache.transaction(mode=tm, timeout=T)(body)         # ONE decorated function per mode, shared by all tasks
                DEC2[m] = cache.transaction(mode=tm, timeout=T)(body)

            async def block(b):
                m, tm, cmds, fail, form = b["mode"], MODES[b["mode"]], b["cmds"], b["raise"], b["form"]
                half = len(cmds) // 2
                res = []
                if form == "ctx":
                    async with cache.transaction(mode=tm, timeout=T):
                        return await body(cmds, fail, res)
                if form == "decor":
                    return await DEC[m](cmds, fail, res)
                if form == "ctx_in_ctx":
                    async with cache.transaction(mode=tm, timeout=T):
                        await body(cmds[:half], False, res)
                        async with cache.transaction(mode=tm, timeout=T):
                            return await body(cmds[half:], fail, res)
                if form == "ctx_reentered":            # one context object entered again inside itself
                    uow = cache.transaction(mode=tm, timeout=T)
                    async with uow:
                        await body(cmds[:half], False, res)
                        async with uow:
                            return await body(cmds[half:], fail, res)
                if form in ("ctx_midcommit", "ctx_midrollback"):
                    # an explicit commit / rollback in the middle of the block: the two parts behave as two blocks back to back
                    i = who()
                    async with cache.transaction(mode=tm, timeout=T) as tx:
                        try:
                            await body(cmds[:half], False, res)
                            if form == "ctx_midcommit":
                                await tx.commit()
                                log.append(["end", tick(), i, "ok", list(res)])
                            else:
                                await tx.rollback()
                                log.append(["end", tick(), i, "raised", list(res)])
                        except LockedError:
                            await tx.rollback()
                            log.append(["end", tick(), i, "locked", []])
                        log.append(["begin", tick(), i])
                        return await body(cmds[half:], fail, [])
                if form == "decor_in_decor":
                    async def outer(res):
                        await body(cmds[:half], False, res)
                        return await DEC2[m](cmds[half:], fail, res)
                    return await cache.transaction(mode=tm, timeout=T)(outer)(res)
                if form == "ctx_in_decor":
                    async def outer2(res):
                        await body(cmds[:half], False, res)
                        async with cache.transaction(mode=tm, timeout=T):
                            return await body(cmds[half:], fail, res)
                    return await cache.transaction(mode=tm, timeout=T)(outer2)(res)
                async with cache.transaction(mode=tm, timeout=T):      # decor_in_ctx
                    await body(cmds[:half], False, res)
                    return await DEC2[m](cmds[half:], fail, res)

            async def task_main(i, prog):
                for item in prog:
                    log.append(["begin", tick(), i])
                    if item["kind"] == "direct":
                        try:
                            r = await do(item["cmd"])
                            log.append(["end", tick(), i, "ok", [r]])
                        except Exception as e:  # noqa
                            log.append(["end", tick(), i, "other", repr(e)[:80]])
                        continue
                    try:
                        r = await block(item)
                        log.append(["end", tick(), i, "ok", list(r)])
                    except (Boom, asyncio.CancelledError) as e:
                        log.append(["end", tick(), i, "raised", list(e.args[0]) if e.args else []])
                    except LockedError:
                        log.append(["end", tick(), i, "locked", []])
                    except Exception as e:  # noqa
                        log.append(["end", tick(), i, "other", repr(e)[:80]])
            ts = []
            for i, prog in enumerate(case["tasks"]):
                t = asyncio.get_running_loop().create_task(task_main(i, prog), name=f"W{i}")
                drv.tasks[f"W{i}"] = t
                ts.append(t)
            await asyncio.gather(*ts, return_exceptions=True)
            final = snap()
            left = sorted(k for k in mem.store if k.startswith(":") and not (mem.store[k][0] is not None and mem.store[k][0] <= vclock.Clock.now))
            tend = tick()
            await cache.close()
            return {"final": final, "tend": tend, "locks_left": left}
        return main()
    return sched.run(main_factory, case.get("schedule", []), task_hook=hook)


def run_impl(case):
    result, drv = _run(case)
    ok = isinstance(result, dict) and "final" in result
    return {"log": drv.events, "final": result["final"] if ok else [None] * len(UNIV), "tend": result["tend"] if ok else 0,
            "locks_left": result["locks_left"] if ok else ["?"], "deadlock": bool(drv.deadlock or not ok), "choices": len(drv.trace)}


def _cmd(c):
    op = c[0]
    if op == "get": return C("Get", Nat(c[1]))
    if op == "put": return C("Put", Nat(c[1]), Z(c[2]))
    if op == "incr": return C("Incr", Nat(c[1]), Z(c[2]))
    if op == "putif": return C("PutIf", Nat(c[1]), Z(c[2]), bool(c[3]))
    if op == "del": return C("Del", Nat(c[1]))
    if op == "touch": return C("Touch", Nat(c[1]))
    return C("Sleep", Z(2 * c[1]))


def _items(it):
    if it["kind"] == "direct": return [C("Direct", _cmd(it["cmd"]))]
    md = C({"fast": "Fast", "locked": "Locked", "serializable": "Serial"}[it["mode"]])
    if it["form"] in ("ctx_midcommit", "ctx_midrollback"):
        half = len(it["cmds"]) // 2
        return [C("Txn", C("Build_block", md, [_cmd(c) for c in it["cmds"][:half]], it["form"] == "ctx_midrollback")),
                C("Txn", C("Build_block", md, [_cmd(c) for c in it["cmds"][half:]], bool(it["raise"])))]
    return [C("Txn", C("Build_block", md, [_cmd(c) for c in it["cmds"]], bool(it["raise"])))]


def _oz(v):
    return None if v is None else Some(Z(v))


BK = {"get": "BGet", "set": "BPut", "incr": "BIncr", "delete": "BDel", "set_lock": "BSetLock", "unlock": "BUnlock", "delete_many": "BDelMany", "set_many": "BSetMany", "exists": "BExists", "expire": "BExpire"}


def to_coq(case, obs):
    tr = []
    for e in obs["log"]:
        if e[0] == "cmd":
            _, t, i, name, k, r, hint, after = e
            if name not in BK:
                tr.append(C("RB", Z(t), Nat(i), C("BPut"), Nat(97), None, Nat(0), [_oz(v) for v in after]))   # unexpected command: never matches
                continue
            tr.append(C("RB", Z(t), Nat(i), C(BK[name]), Nat(k), _oz(r), Nat(hint), [_oz(v) for v in after]))
        elif e[0] == "begin":
            tr.append(C("RBegin", Nat(e[2])))
        elif e[0] == "end":
            _, t, i, kind, payload = e
            if kind == "ok": o = C("Ok", [_oz(v) for v in payload])
            elif kind == "raised": o = C("Raised", [_oz(v) for v in payload])
            elif kind == "locked": o = C("LockedErr")
            else: o = C("Raised", [Some(Z(-999))])     # any other exception: never what the model or the property allows
            tr.append(C("REnd", Z(t), Nat(i), o))
    init = [_oz(case["init"].get(str(k))) for k in UNIV]
    final = [_oz(v) for v in obs["final"]]
    if obs["deadlock"] or obs["locks_left"]:
        final = [Some(Z(-12345))] + final[1:]          # a stuck run or a lock left behind: flagged
    return C("CConc", [[x for it in prog for x in _items(it)] for prog in case["tasks"]], init, Z(round(case["timeout"] / UNIT)), Nat(attempts(case["timeout"])),
             [Nat(k) for k in UNIV], tr, Z(obs["tend"]), final)


def nontrivial(case, obs):
    inside, overlap, waited = set(), False, False
    for e in obs["log"]:
        if e[0] == "begin": inside.add(e[2])
        elif e[0] == "end": inside.discard(e[2])
        elif e[0] == "cmd":
            if len(inside) > 1: overlap = True
            if e[3] == "set_lock" and not e[5]: waited = True
    return overlap and (waited or any(e[0] == "cmd" and e[3] == "set_many" for e in obs["log"]))


def classify(case, obs):
    d = {"tasks": len(case["tasks"]), "items": sum(len(p) for p in case["tasks"]), "commands_logged": sum(1 for e in obs["log"] if e[0] == "cmd"),
         "deadlock": int(obs["deadlock"]), "scheduler_choices": obs["choices"]}
    for p in case["tasks"]:
        for it in p:
            key = "direct" if it["kind"] == "direct" else f"block_{it['mode']}_{it['form']}" + ("_raises" if it["raise"] else "")
            d[key] = d.get(key, 0) + 1
    for e in obs["log"]:
        if e[0] == "cmd":
            name = e[3] + ("_fail" if e[3] in ("set_lock", "unlock") and not e[5] else "")
            d["cmd_" + name] = d.get("cmd_" + name, 0) + 1
        elif e[0] == "end":
            d["end_" + e[3]] = d.get("end_" + e[3], 0) + 1
    return d


def shrink(case):
    ts = case["tasks"]
    if len(ts) > 2:
        for i in range(len(ts)):
            c = dict(case); c["tasks"] = ts[:i] + ts[i + 1:]; yield c
    for i, p in enumerate(ts):
        if len(p) > 1:
            for j in range(len(p)):
                c = dict(case); c["tasks"] = ts[:i] + [p[:j] + p[j + 1:]] + ts[i + 1:]; yield c
        for j, it in enumerate(p):
            if it["kind"] == "txn":
                if len(it["cmds"]) > 1:
                    for q in range(len(it["cmds"])):
                        c = dict(case); c["tasks"] = ts[:i] + [p[:j] + [dict(it, cmds=it["cmds"][:q] + it["cmds"][q + 1:])] + p[j + 1:]] + ts[i + 1:]; yield c
                if it["form"] != "ctx":
                    c = dict(case); c["tasks"] = ts[:i] + [p[:j] + [dict(it, form="ctx")] + p[j + 1:]] + ts[i + 1:]; yield c
    s = case.get("schedule", [])
    if s:
        c = dict(case); c["schedule"] = s[:len(s) // 2]; yield c
    for i in range(min(len(s), 12)):
        if s[i]:
            c = dict(case); c["schedule"] = s[:i] + [0] + s[i + 1:]; yield c

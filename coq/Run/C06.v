(* Correspondence + oracle for C06: the observed trace of lock commands of one key, replayed on the model. *)
From Cashews Require Import Base.Prelude Model.Lock.
Open Scope Z_scope.

(* per key: events in the order the backend commands really ran, with what each returned *)
(* per task: wait flag, refused attempts, attempts, how its call ended (0 entered and left, 1 LockedError, 2 cancelled, 3 never ended) *)
(* a trace element: a lock command (with what it returned), or the start / end of a guarded body *)
Inductive tev := E (e : event) | SecIn (i : nat) | SecOut (i : nat).
(* per is_locked call of the probing task: rounds it may take at most (ceil(wait/step); 0 for the plain form), step and time the call took (ticks), what its polls saw (empty when the polls could not be observed), what it returned *)
Inductive case := CLock (traces : list (list (tev * bool))) (policy : list (bool * nat * nat * nat)) (probes : list (nat * nat * nat * list bool * bool)).

Fixpoint replay (c : cfg) (tr : list (tev * bool)) : bool :=
  match tr with
  | [] => true
  | (E e, r) :: rest => let '(c', r') := step c e in
                        (match e with Tick _ => true | _ => Bool.eqb r r' end) && replay c' rest
  | (SecIn i, _) :: rest => (match tasks c i with Inside _ _ _ => true | Idle => false end) && replay c rest   (* a body runs only between its task's acquisition and release *)
  | (SecOut _, _) :: rest => replay c rest
  end.

(* ---------- oracle from the observations ---------- *)
(* inside : (task, entered at, ttl);  holder : (task, deadline) as the ideal lock sees it *)
Fixpoint ok_lock (now : Z) (inside : list (nat * Z * Z)) (holder : option (nat * Z)) (tr : list (tev * bool)) : bool :=
  match tr with
  | [] => match inside with [] => true | _ => false end              (* every task that entered has released *)
  | (SecIn i, _) :: rest =>
      (* the guarded body runs while its task is between acquisition and release; whoever else is in that state has overstayed *)
      existsb (fun x => Nat.eqb (fst (fst x)) i) inside &&
      forallb (fun x => let '(j, a, t) := x in Nat.eqb j i || (a + t <=? now)) inside && ok_lock now inside holder rest
  | (SecOut i, _) :: rest => existsb (fun x => Nat.eqb (fst (fst x)) i) inside && ok_lock now inside holder rest
  | (E (Tick dt), _) :: rest => ok_lock (now + dt) inside holder rest
  | (E (Try i ttl), r) :: rest =>
      let free := match holder with Some (_, d) => d <=? now | None => true end in
      Bool.eqb r free &&                                              (* acquired iff no live holder: nothing else matters *)
      (if r then
         (* mutual exclusion: whoever is still inside has overstayed its own ttl *)
         forallb (fun x => let '(_, a, t) := x in a + t <=? now) inside &&
         ok_lock now ((i, now, ttl) :: inside) (Some (i, now + ttl)) rest
       else ok_lock now inside holder rest)
  | (E (Leave i), r) :: rest =>
      let mine := match holder with Some (j, d) => Nat.eqb i j && (now <? d) | None => false end in
      Bool.eqb r mine &&
      ok_lock now (filter (fun x => negb (Nat.eqb (fst (fst x)) i)) inside) (if mine then None else holder) rest
  | (E (ForeignUnlock _), r) :: rest => negb r && ok_lock now inside holder rest     (* a foreign token releases nothing *)
  | (E Probe, r) :: rest =>                                         (* is_locked: true iff some holder's ttl is still running *)
      Bool.eqb r (match holder with Some (_, d) => now <? d | None => false end) && ok_lock now inside holder rest
  end.

(* is_locked(wait, step), seen from its caller only: True comes when the whole wait is used up, never earlier; False comes
   at a poll instant (a whole number of steps after the call) no later than that; the answer is what the last observed poll
   saw.  What the key's liveness was at each poll and at the return is checked in the trace (Probe events). *)
Definition ok_probe (p : nat * nat * nat * list bool * bool) : bool :=
  let '(n, st, el, polls, r) := p in
  (if r then Nat.eqb el (n * st) else Nat.leb el (n * st) && Nat.eqb (el mod st) 0) &&
  match polls with [] => true | _ => Bool.eqb r (last polls true) end.

(* waiting policy: a waiting caller is never turned away (it keeps attempting until it acquires); a caller that does
   not wait is turned away by its first refused attempt and never enters afterwards *)
Definition ok_policy (p : bool * nat * nat * nat) : bool :=
  let '(wait, refused, tries, out) := p in
  match out with
  | 0%nat => if wait then Nat.eqb tries (S refused) else Nat.eqb refused 0 && Nat.eqb tries 1
  | 1%nat => negb wait && Nat.eqb refused 1 && Nat.eqb tries 1
  | _ => true
  end.

Definition judge (c : case) : verdict :=
  match c with
  | CLock traces policy probes => (forallb (replay init) traces, forallb (ok_lock 0 [] None) traces && forallb ok_policy policy && forallb ok_probe probes, [])
  end.
Definition explain (c : case) :=
  match c with CLock traces _ _ => map (fun tr => snd (fold_left (fun cr e => let '(c, rs) := cr in match fst e with E ev => let '(c', r) := step c ev in (c', rs ++ [r]) | _ => (c, rs ++ [true]) end) tr (init, []))) traces end.

"""C03: transaction effects are all-or-nothing and invisible until commit."""
from harness import txnrun

ID = "C03"
RUN_MODULE = "Spec.TTLMap Model.Tags Model.Txn Run.TxnCase Run.C03"
EXPLAIN = "explain"
RULE = ("random initial stores x 1-15 transactional commands (mostly writes: set +-ttl incl. sub-second TTLs still running at commit, set_many, incr, "
        "delete, delete_many, delete_match, expire, plus reads) in fast / locked / serializable mode, optionally nested, ended by commit, explicit "
        "rollback or an exception; an outside observer reads the raw backend (value and deadline of every key) after every command and after the "
        "block. non-trivial: the transaction contains a write that changes the store at commit, or is rolled back after such a write")
TRUSTED_BASE = ["Coq 8.16.1 kernel + vm_compute", "hand-written model coq/Model/Txn.v over the TTL-map spec (C01), tied by this differential run",
                "patterns restricted to 'prefix*' (C13 covers the matcher)"]
ASSUMPTIONS = ["no TTL - assigned inside or already in the store - elapses before the transaction ends", "clear() excluded (it is not transactional)",
               "store within capacity"]
EXHAUSTIVE = {"quick": False, "thorough": False}


def gen_cases(rng, tier):
    n = 900 if tier == "quick" else 12000
    return [txnrun.gen_case(rng) for _ in range(n)]


run_impl = txnrun.run
to_coq = txnrun.to_coq
shrink = txnrun.shrink


def nontrivial(case, obs):
    return any(c[0] in ("set", "set_many", "incr", "delete", "delete_many", "delete_match", "expire") for _, c in case["cmds"])


def _unused(case, obs):
    touched = set()
    for adv, c in case["cmds"]:
        op = c[0]
        ks = [c[1]] if op in ("get", "exists", "get_expire", "set", "incr", "delete", "expire") else []
        if op in ("set", "incr", "expire") and (len(c) > 4 and c[4] is not None or op != "set") and (c[1] in touched or any(c[1] == i[0] for i in case["init"])):
            return True
        if op in ("set", "incr", "delete", "expire"): touched.add(c[1])
        if op == "set_many": touched.update(k for k, _ in c[1])
        if op == "delete_many": touched.update(c[1])
    return False


def classify(case, obs):
    d = {"mode_" + case["mode"]: 1, "ending_" + case["ending"]: 1, "nested": int(bool(case["nested"])), "nested_" + str(case["nested"]): 1, "cmds": len(case["cmds"]), "anomaly": int(bool(obs["anomaly"]))}
    for adv, c in case["cmds"]:
        d["op_" + c[0]] = d.get("op_" + c[0], 0) + 1
    return d

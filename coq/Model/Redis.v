(* Executable image of cashews/backends/redis: the server commands cashews issues (from the Redis command reference),
   the three Lua scripts transcribed as functions, backend.py's translation of every cache command into server calls
   and of the replies back into results, and client.py's error handling (suppress on: SafeRedis / SafePipeline;
   suppress off: Redis raising CacheBackendInteractionError).
   Time is in milliseconds (the server's clock).  Keys never collide across value kinds in the histories used, but
   the model answers WRONGTYPE like the server.  Definitions only. *)
From Cashews Require Import Base.Prelude Spec.Glob.
Open Scope Z_scope.

(* ---------- the server ---------- *)
Inductive rval :=
| RStr (v : val)            (* a value written by SET: the serializer's encoding of v (never all digits) *)
| RNum (z : Z)              (* decimal digits, as INCRBY leaves them *)
| RTok (v : val)            (* a lock token: stored raw, not a serializer encoding (reads as 'no value') *)
| RBits (b : list bool)     (* a string used through BITFIELD, most significant bit first *)
| RSet (l : list string)    (* duplicate-free, sorted by the harness before comparison *)
| RZSet (l : list Z).       (* the scores of a sorted set whose members are unique per call (the sliding window) *)
Definition entry := (rval * option Z)%type.          (* value, expiry instant *)
Definition server := key -> option entry.

Definition look (s : server) (now : Z) (k : key) : option entry :=
  match s k with
  | Some (v, Some d) => if d <=? now then None else Some (v, Some d)
  | x => x
  end.
Definition supd (s : server) (k : key) (e : option entry) : server := fun k' => if String.eqb k' k then e else s k'.

Inductive reply := Nil | Okay | Int (z : Z) | Bulk (v : rval) | Arr (l : list reply) | Keys (l : list key) | WrongType.

Definition is_str (v : rval) := match v with RStr _ | RNum _ | RBits _ | RTok _ => true | _ => false end.

(* SET key value [PX ms] [NX | XX] *)
Definition c_set (s : server) now k (v : rval) (px : option Z) (nx xx : bool) : server * reply :=
  let old := look s now k in
  if (nx && isSome old) || (xx && negb (isSome old)) then (s, Nil)
  else (supd s k (Some (v, option_map (fun p => now + p) px)), Okay).
Definition c_get (s : server) now k : reply :=
  match look s now k with None => Nil | Some (v, _) => if is_str v then Bulk v else WrongType end.
Definition c_mget (s : server) now (ks : list key) : reply :=
  Arr (map (fun k => match look s now k with Some (v, _) => if is_str v then Bulk v else Nil | None => Nil end) ks).
Definition c_unlink (s : server) now (ks : list key) : server * reply :=
  fold_left (fun (sr : server * reply) k => let '(s', r) := sr in
               match look s' now k, r with
               | Some _, Int n => (supd s' k None, Int (n + 1))
               | _, _ => (s', r)
               end) ks (s, Int 0).
Definition c_exists (s : server) now k : reply := Int (if isSome (look s now k) then 1 else 0).
Definition c_pexpire (s : server) now k (ms : Z) : server * reply :=
  match look s now k with
  | None => (s, Int 0)
  | Some (v, _) => (if ms <=? 0 then supd s k None else supd s k (Some (v, Some (now + ms))), Int 1)
  end.
Definition c_ttl (s : server) now k : reply :=
  match look s now k with
  | None => Int (-2)
  | Some (_, None) => Int (-1)
  | Some (_, Some d) => Int ((d - now + 500) / 1000)
  end.
Definition c_incrby (s : server) now k (by_ : Z) : server * reply :=
  match look s now k with
  | None => (supd s k (Some (RNum by_, None)), Int by_)
  | Some (RNum z, d) => (supd s k (Some (RNum (z + by_), d)), Int (z + by_))
  | Some (RStr _, _) | Some (RBits _, _) | Some (RTok _, _) => (s, Nil)       (* "value is not an integer": an error reply *)
  | Some _ => (s, WrongType)
  end.
Definition c_scan (s : server) now (U : list key) (pat : string) : list key :=
  filter (fun k => isSome (look s now k) && globs pat k) U.

(* sets *)
Fixpoint sorted_insert (x : string) (l : list string) : list string :=
  match l with
  | [] => [x]
  | y :: r => if String.eqb x y then l else if String.ltb x y then x :: l else y :: sorted_insert x r
  end.
Definition mem_s (x : string) (l : list string) := existsb (String.eqb x) l.
Definition c_sadd (s : server) now k (ms : list string) : server * reply :=
  match look s now k with
  | None => (supd s k (Some (RSet (fold_left (fun l m => sorted_insert m l) ms []), None)),
             Int (Z.of_nat (length (fold_left (fun l m => sorted_insert m l) ms []))))
  | Some (RSet l, d) => let l' := fold_left (fun l m => sorted_insert m l) ms l in
                        (supd s k (Some (RSet l', d)), Int (Z.of_nat (length l') - Z.of_nat (length l)))
  | Some _ => (s, WrongType)
  end.
Definition c_srem (s : server) now k (ms : list string) : server * reply :=
  match look s now k with
  | None => (s, Int 0)
  | Some (RSet l, d) => let l' := filter (fun x => negb (mem_s x ms)) l in
                        (supd s k (match l' with [] => None | _ => Some (RSet l', d) end), Int (Z.of_nat (length l) - Z.of_nat (length l')))
  | Some _ => (s, WrongType)
  end.
(* SPOP key count: the server picks any members; the model hands out the smallest ones (the stand-in does the same) *)
Definition c_spop (s : server) now k (count : nat) : server * reply :=
  match look s now k with
  | None => (s, Keys [])
  | Some (RSet l, d) => let out := firstn count l in let rest := skipn count l in
                        (supd s k (match rest with [] => None | _ => Some (RSet rest, d) end), Keys out)
  | Some _ => (s, WrongType)
  end.

(* bit fields: BITFIELD key [GET u<size> #i | OVERFLOW SAT INCRBY u<size> #i by]... *)
Definition bits_val (b : list bool) : Z := fold_left (fun (a : Z) (x : bool) => 2 * a + (if x then 1 else 0)) b 0.
Fixpoint nth_bits (b : list bool) (pos len : nat) : list bool :=
  match len with O => [] | S n => nth pos b false :: nth_bits b (S pos) n end.
Fixpoint val_bits (len : nat) (v : Z) : list bool :=     (* most significant first *)
  match len with O => [] | S n => Z.testbit v (Z.of_nat n) :: val_bits n v end.
Fixpoint set_bits (b : list bool) (pos : nat) (w : list bool) : list bool :=
  match w with
  | [] => b
  | x :: r => set_bits (firstn pos (b ++ repeat false (S pos - length b)) ++ x :: skipn (S pos) (b ++ repeat false (S pos - length b))) (S pos) r
  end.
Definition bf_get (b : list bool) (size idx : nat) : Z := bits_val (nth_bits b (idx * size) size).
Definition bf_incr_sat (b : list bool) (size idx : nat) (by_ : Z) : list bool * Z :=
  let top := 2 ^ Z.of_nat size - 1 in
  let v := bf_get b size idx + by_ in
  let v' := if top <? v then top else if v <? 0 then 0 else v in
  (set_bits b (idx * size) (val_bits size v'), v').
Definition pad8 (b : list bool) : list bool := b ++ repeat false ((8 - length b mod 8) mod 8).
Definition bits_of (s : server) now k : option (list bool * option Z) :=
  match look s now k with
  | None => Some ([], None)
  | Some (RBits b, d) => Some (b, d)
  | Some _ => None
  end.
Definition c_bf_get (s : server) now k (size : nat) (idxs : list nat) : reply :=
  match bits_of s now k with Some (b, _) => Arr (map (fun i => Int (bf_get b size i)) idxs) | None => WrongType end.
Definition c_bf_incr (s : server) now k (size : nat) (idxs : list nat) (by_ : Z) : server * reply :=
  match bits_of s now k with
  | Some (b, d) =>
      let '(b', outs) := fold_left (fun (bo : list bool * list reply) i => let '(b0, o) := bo in
                                       let '(b1, v) := bf_incr_sat b0 size i by_ in (b1, o ++ [Int v])) idxs (b, []) in
      (match idxs with [] => s | _ => supd s k (Some (RBits (pad8 b'), d)) end, Arr outs)
  | None => (s, WrongType)
  end.

(* the scripts (backend.py:15-40), statement by statement *)
Definition script_unlock (s : server) now k (tok : val) : server * reply :=
  match c_get s now k with
  | Bulk (RTok v) => if val_eqb v tok then c_unlink s now [k] else (s, Int 0)
  | _ => (s, Int 0)
  end.
Definition script_incr_expire (s : server) now k (by_ px : Z) : server * reply :=
  let '(s1, r) := c_incrby s now k by_ in
  match r with
  | Int n => if n =? 1 then (fst (c_pexpire s1 now k px), Int n) else (s1, Int n)
  | _ => (s1, r)
  end.
(* ZREMRANGEBYSCORE k 0 (start ; ZCOUNT k start end ; if count < max: ZADD k end <unique member>, PEXPIRE when px > 0 *)
Definition zset_of (s : server) now k : option (list Z * option Z) :=
  match look s now k with None => Some ([], None) | Some (RZSet l, d) => Some (l, d) | Some _ => None end.
Definition script_incr_slice (s : server) now k (start end_ maxv px : Z) : server * reply :=
  match zset_of s now k with
  | None => (s, WrongType)
  | Some (l, d) =>
      let l1 := filter (fun x => negb ((0 <=? x) && (x <? start))) l in
      let s1 := match l, l1 with
                | [], _ => s
                | _, [] => supd s k None
                | _, _ => supd s k (Some (RZSet l1, d))
                end in
      let d1 := match l1 with [] => None | _ => d end in
      let cnt := Z.of_nat (length (filter (fun x => (start <=? x) && (x <=? end_)) l1)) in
      if cnt <? maxv then
        let l2 := l1 ++ [end_] in
        let s2 := supd s1 k (Some (RZSet l2, d1)) in
        ((if 0 <? px then fst (c_pexpire s2 now k px) else s2), Int (cnt + 1))
      else (s1, Int cnt)
  end.

(* ---------- the backend over the server ---------- *)
Inductive ccmd :=
| CSet (k : key) (v : val) (ttl : Z) (ex : option bool)       (* ttl in ms as int(expire * 1000); 0 = none *)
| CSetMany (kvs : list (key * val)) (ttl : Z)
| CGet (k : key) | CGetMany (ks : list key)
| CDel (k : key) | CDelMany (ks : list key) | CExists (k : key)
| CExpire (k : key) (ttl : Z) | CGetExpire (k : key)
| CIncr (k : key) (by_ : Z) (ttl : Z)
| CSetLock (k : key) (tok : val) (ttl : Z) | CUnlock (k : key) (tok : val)
| CScan (pat : string) | CDelMatch (pat : string) | CGetMatch (pat : string)
| CSetAdd (k : key) (ms : list string) (ttl : option Z) | CSetRemove (k : key) (ms : list string) | CSetPop (k : key) (count : nat)
| CGetBits (k : key) (size : nat) (idxs : list nat) | CIncrBits (k : key) (size : nat) (idxs : list nat) (by_ : Z)
| CSliceIncr (k : key) (start end_ maxv ttl : Z)
| CClear | CCount | CPing.

Inductive bres :=
| BVal (v : option val)              (* None: the caller's default *)
| BVals (l : list (option val))
| BBool (b : bool) | BInt (z : Z) | BInts (l : list Z) | BKeys (l : list key) | BPairs (l : list (key * val))
| BNone                              (* python None *)
| BUnit
| BRaise                             (* CacheBackendInteractionError *)
| BOther.                            (* any other exception *)

(* the serializer on SET: integers (not booleans) go as their digits so that INCRBY works on them, everything else pickled *)
Definition enc (v : val) : rval := match v with VInt z => RNum z | _ => RStr v end.
(* _transform_value *)
Definition transform (v : rval) : option val :=
  match v with RStr x => Some x | RNum z => Some (VInt z) | _ => None end.

(* the connection: up, or every call fails.  sup: SafeRedis/SafePipeline swallow the error and answer with a default *)
Section Backend.
Variables (sup : bool) (U : list key).

Definition px_of (ttl : Z) : option Z := if 0 <? ttl then Some ttl else None.

Definition up_step (s : server) (now : Z) (c : ccmd) : server * bres :=
  match c with
  | CSet k v ttl ex =>
      let '(s', r) := c_set s now k (enc v) (px_of ttl) (match ex with Some false => true | _ => false end)
                                                       (match ex with Some true => true | _ => false end) in
      (s', BBool (match r with Okay => true | _ => false end))
  | CSetMany kvs ttl => (fold_left (fun s' kv => fst (c_set s' now (fst kv) (enc (snd kv)) (px_of ttl) false false)) kvs s, BUnit)
  | CGet k => (s, match c_get s now k with Bulk v => BVal (transform v) | Nil => BVal None | _ => if sup then BVal None else BRaise end)
  | CGetMany ks =>
      (s, match ks with [] => BVals [] | _ => match c_mget s now ks with
                                              | Arr l => BVals (map (fun r => match r with Bulk v => transform v | _ => None end) l)
                                              | _ => BVals (map (fun _ => None) ks) end end)
  | CDel k => let '(s', r) := c_unlink s now [k] in (s', BBool (match r with Int 0 => false | _ => true end))
  | CDelMany ks => (fst (c_unlink s now ks), BUnit)
  | CExists k => (s, BBool (match c_exists s now k with Int 0 => false | _ => true end))
  | CExpire k ttl => let '(s', r) := c_pexpire s now k ttl in (s', BBool (match r with Int 0 => false | _ => true end))
  | CGetExpire k => (s, match c_ttl s now k with Int z => BInt z | _ => BInt 0 end)
  | CIncr k by_ ttl =>
      let '(s', r) := if 0 <? ttl then script_incr_expire s now k by_ ttl else c_incrby s now k by_ in
      (s', match r with Int n => BInt n | _ => if sup then BNone else BRaise end)
  | CSetLock k tok ttl =>
      let '(s', r) := c_set s now k (RTok tok) (Some ttl) true false in (s', BBool (match r with Okay => true | _ => false end))
  | CUnlock k tok => let '(s', r) := script_unlock s now k tok in (s', match r with Int n => BInt n | _ => BNone end)
  | CScan pat => (s, BKeys (c_scan s now U pat))
  | CDelMatch pat =>
      if existsb is_star (list_ascii_of_string pat)
      then (fst (c_unlink s now (c_scan s now U pat)), BUnit)
      else (fst (c_unlink s now [pat]), BUnit)
  | CGetMatch pat =>
      (s, BPairs (flat_map (fun k => match look s now k with
                                     | Some (v, _) => match (if is_str v then transform v else None) with Some x => [(k, x)] | None => [] end
                                     | None => [] end) (c_scan s now U pat)))
  | CSetAdd k ms ttl =>
      let '(s1, r) := c_sadd s now k ms in
      match ttl with
      | None => (s1, match r with Int n => BInt n | _ => if sup then BNone else BRaise end)
      | Some t => (match r with Int _ => fst (c_pexpire s1 now k t) | _ => s1 end, BNone)
      end
  | CSetRemove k ms => (fst (c_srem s now k ms), BNone)
  | CSetPop k n => let '(s', r) := c_spop s now k n in (s', match r with Keys l => BKeys l | _ => BKeys [] end)
  | CGetBits k size idxs =>
      (s, match c_bf_get s now k size idxs with Arr l => BInts (map (fun r => match r with Int z => z | _ => 0 end) l) | _ => BInts [] end)
  | CIncrBits k size idxs by_ =>
      let '(s', r) := c_bf_incr s now k size idxs by_ in
      (s', match r with Arr l => BInts (map (fun r => match r with Int z => z | _ => 0 end) l) | _ => BInts [] end)
  | CSliceIncr k st en mx ttl =>
      let '(s', r) := script_incr_slice s now k st en mx ttl in (s', match r with Int n => BInt n | _ => BNone end)
  | CClear => (fun _ => None, BBool true)
  | CCount => (s, BInt (Z.of_nat (length (filter (fun k => isSome (look s now k)) U))))
  | CPing => (s, BVal (Some (VBytes "PONG")))
  end.

(* what each command answers when every server call fails and the client swallows the error (client.py:27-45),
   after backend.py's own post-processing of None / 0 / [0, []] *)
Definition down_res (c : ccmd) : bres :=
  match c with
  | CSet _ _ _ _ | CSetLock _ _ _ | CDel _ | CExists _ => BBool false
  | CSetMany _ _ | CDelMany _ | CDelMatch _ => BUnit
  | CGet _ => BVal None
  | CGetMany ks => BVals (map (fun _ => None) ks)
  | CExpire _ _ => BNone
  | CGetExpire _ => BInt 0
  | CIncr _ _ _ | CUnlock _ _ | CSliceIncr _ _ _ _ _ | CSetRemove _ _ | CSetAdd _ _ _ | CCount => BNone
  | CClear => BNone
  | CScan _ => BKeys []
  | CGetMatch _ => BPairs []
  | CSetPop _ _ => BKeys []
  | CGetBits _ _ _ | CIncrBits _ _ _ _ => BInts []
  | CPing => BRaise
  end.

Definition touches_server (c : ccmd) : bool := match c with CGetMany [] => false | _ => true end.

Definition b_step (down : bool) (s : server) (now : Z) (c : ccmd) : server * bres :=
  if down then (s, if touches_server c then (if sup then down_res c else BRaise) else snd (up_step s now c))
  else up_step s now c.
End Backend.

Fixpoint run_b (sup : bool) (U : list key) (s : server) (h : list (Z * bool * ccmd)) : list bres :=
  match h with
  | [] => []
  | (t, down, c) :: r => let '(s', o) := b_step sup U down s t c in o :: run_b sup U s' r
  end.

(* backend.py is_locked(key, wait, step) in a sequential history (nothing else touches the server during the wait): the plain
   form is `exists`; the waiting form polls `exists` before each sleep of `step` while the wait lasts - absent: False at once -
   and decides by one last `exists` when the wait is used up.  Fuel bounds the loop; None = out of fuel. *)
Definition b_exists (U : list key) (s : server) (now : Z) (k : key) : bool :=
  match snd (up_step true U s now (CExists k)) with BBool b => b | _ => false end.
Fixpoint b_is_locked (fuel : nat) (U : list key) (s : server) (now : Z) (k : key) (w st : Z) : option bool :=
  match fuel with
  | O => None
  | S f => if 0 <? w then (if b_exists U s now k then b_is_locked f U s (now + st) k (w - st) st else Some false)
           else Some (b_exists U s now k)
  end.

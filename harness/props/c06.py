"""C06: cache.lock / @locked mutual exclusion with owner-only release, under the deterministic scheduler."""
import asyncio
import itertools

from harness import sched, vclock
from harness.core import C, Nat, Z
from harness.memrun import TICK

ID = "C06"
RUN_MODULE = "Model.Lock Run.C06"
EXPLAIN = "explain"
RULE = ("2-4 real asyncio tasks entering sections guarded by cache.lock / @cache.locked on a coroutine function (constant key, or a key template over the arguments with positional and keyword call forms) / @cache.locked on an async generator / backend.lock on 1-2 keys (the second key lives on a second backend the facade routes to by prefix; in one case out of five the facade has no default backend at all), lock ttl 1 / 1.5 / 2 s (spelled as float / int / timedelta / string through the facade), section "
        "durations 0-3 x ttl (some overstay; one body in five ends with an exception), wait=True (check_interval 0 or 0.125 s) and wait=False, plus unlock calls with a foreign token; in every other case one more task asks is_locked about the contended key once or twice - plain form or is_locked(wait, step) with wait 0.5 / 1 / 1.25 s and step 0.125 / 0.25 / 0.375 s, on the backend or through the facade - and every poll it makes, its answer and the time it took are recorded in the trace; "
        "every set_lock / unlock / ping of the Memory instance is gated, the schedule (which parked task runs next, when the clock advances to "
        "the next timer, which designated task gets cancelled) is a seeded list of choices - all schedules of length <= 7 for two tasks in the "
        "thorough tier; purge task on (0.25 s) or off. Observed: every lock command with its result and the start and end of every guarded body, in execution order, and per task how it ended (entered, LockedError, cancelled) with its number of attempts. non-trivial: at least "
        "one acquisition failed or one holder overstayed its ttl")
TRUSTED_BASE = ["Coq 8.16.1 kernel + vm_compute", "hand-written model coq/Model/Lock.v tied by replaying the observed command trace",
                "asyncio task switching, cancellation delivery and the finally clause of the context manager are the interpreter's; the scheduler only chooses among parked tasks",
                "tokens are uuid4 (distinct per acquisition: assumption)"]
ASSUMPTIONS = ["commands of the in-memory backend are atomic (no await inside)", "positive ttl"]
EXHAUSTIVE = {"quick": False, "thorough": True}


KEYNAME = {"L": "L", "M": "p:M"}      # M is kept on a second backend, reached through the facade by its prefix


def _keyname(case):
    """in one case out of five the facade has no default backend at all (both are registered under a prefix): under contention the
    facade's liveness probe then finds no backend and the taker is refused with NotConfiguredError - it must still never enter"""
    return {"L": "l:L", "M": "p:M"} if len(case["schedule"]) > 20 and case["schedule"][0] % 5 == 4 else KEYNAME


class Boom(Exception):
    pass


def _probe(case):
    """every other generated case has one more task asking `is_locked` about the contended key while the others take and release
    it: the plain form or the waiting form (wait / step in ticks, not always a multiple), on the backend or through the facade.
    Derived from the schedule so that the random stream of the generator is unchanged."""
    s = case["schedule"]
    if "conf" not in case or len(s) < 20 or s[2] % 2:
        return None
    return {"start": (s[3] % 3) * 4, "wait": [None, 8, 16, 20][s[4] % 4], "step": [2, 4, 6][s[5] % 3], "facade": s[6] % 2 == 1,
            "again": s[7] % 2 == 1}


def gen_cases(rng, tier):
    cases = []
    n = 500 if tier == "quick" else 4000
    for _ in range(n):
        nt = rng.randint(2, 4)
        tasks = []
        for i in range(nt):
            ttl = rng.choice([16, 32, 24])      # 1 s, 2 s, 1.5 s
            tasks.append({"key": rng.choice(["L", "L", "L", "M"]), "ttl": ttl, "dur": rng.choice([0, 4, ttl - 2, ttl, ttl + 4, 3 * ttl]),
                          "wait": rng.random() < 0.75, "ci": rng.choice([0, 2]), "via": rng.choice(["lock", "locked", "locked_gen", "backend", "locked_args"]),
                          "start": rng.choice([0, 0, 2, ttl]), "raise": rng.random() < 0.2,       # the guarded body ends with an exception
                          "spell": rng.choice(["float", "float", "int", "timedelta", "str"])})
        cases.append({"tasks": tasks, "purge": rng.random() < 0.5, "foreign": rng.random() < 0.3,
                      "cancel": rng.choice([None, None, 0, 1]), "schedule": [rng.randrange(6) for _ in range(60)],
                      "conf": rng.choice(["", "", "&secret=s3", "&pickle_type=default", "&pickle_type=json"])})
    if tier == "thorough":
        base = [{"key": "L", "ttl": 16, "dur": 20, "wait": True, "ci": 2, "via": "lock", "start": 0},
                {"key": "L", "ttl": 16, "dur": 4, "wait": True, "ci": 2, "via": "lock", "start": 0}]
        for sch in itertools.product(range(3), repeat=7):
            cases.append({"tasks": base, "purge": False, "foreign": False, "cancel": None, "schedule": list(sch) + [0] * 40})
            cases.append({"tasks": base, "purge": False, "foreign": True, "cancel": 1, "schedule": list(sch) + [0] * 40})
    return cases


def run_impl(case):
    events = []   # [key, kind, task, ttl, result, tick]

    def main_factory(drv):
        async def main():
            from cashews import Cache
            from cashews.exceptions import LockedError
            cache = Cache()
            keyname = _keyname(case)
            mem = cache.setup("mem://?size=100000&check_interval=" + ("0.25" if case["purge"] else "0") + case.get("conf", ""),
                              **({"prefix": "l:"} if keyname["L"] != "L" else {}))
            mem2 = cache.setup("mem://?size=100000&check_interval=0", prefix="p:")      # keys under 'p:' are routed to a second backend
            if not (len(case["schedule"]) > 20 and case["schedule"][1] % 3 == 2 and not case["purge"]):
                await cache.init()      # (otherwise the backends are initialised lazily, by the first command that goes through the facade)
            names = {f"T{i}": i for i in range(len(case["tasks"]))}
            names["F"] = 99
            tokens = {}   # token -> task index
            raws = {}

            def instrument(be):
                raw = {n: getattr(be, n) for n in ("set_lock", "unlock", "ping")}
                raws[be] = raw

                async def set_lock(key, value, expire):
                    who = names.get(asyncio.current_task().get_name(), -1)
                    await drv.gate("set_lock")
                    r = await raw["set_lock"](key, value, expire)
                    tokens.setdefault(value, who)
                    events.append([key, "try", who, round(expire / TICK), bool(r), drv.tick()])
                    return r

                async def unlock(key, value):
                    who = names.get(asyncio.current_task().get_name(), -1)
                    await drv.gate("unlock")
                    r = await raw["unlock"](key, value)
                    events.append([key, "foreign" if value not in tokens else "leave", tokens.get(value, who), 0, bool(r), drv.tick()])
                    return r

                async def ping(message=None):
                    await drv.gate("ping")
                    return await raw["ping"](message)
                be.set_lock, be.unlock, be.ping = set_lock, unlock, ping
            instrument(mem)
            instrument(mem2)
            outcomes = {}
            probes = []
            probe = _probe(case)
            raw_exist = mem._key_exist

            async def key_exist(key):
                r = await raw_exist(key)
                if asyncio.current_task().get_name() == "P" and key == keyname["L"]:
                    events.append([key, "poll", -1, 0, bool(r), drv.tick()])
                    probes[-1][1].append(bool(r))
                return r
            if probe:
                mem._key_exist = key_exist

            async def prober():
                await asyncio.sleep(probe["start"] * TICK)
                for _ in range(2 if probe["again"] else 1):
                    w, st = probe["wait"], probe["step"]
                    probes.append([0 if w is None else -(-w // st), [], None, st, drv.tick(), None])
                    target = cache if probe["facade"] else mem
                    if w is None:
                        probes[-1][2] = bool(await target.is_locked(keyname["L"]))
                    else:
                        probes[-1][2] = bool(await target.is_locked(keyname["L"], wait=w * TICK, step=st * TICK))
                    # what the call answered, at the point of the trace where it answered: checked against the key's liveness there
                    events.append([keyname["L"], "poll", -1, 0, probes[-1][2], drv.tick()])
                    probes[-1][5] = drv.tick()
                    await asyncio.sleep(3 * TICK)

            async def worker(i, spec):
                if spec["start"]:
                    await asyncio.sleep(spec["start"] * TICK)
                from harness.props.c02 import ttl_py
                ttl = ttl_py(spec.get("spell", "float"), spec["ttl"]) if spec["via"] != "backend" else spec["ttl"] * TICK     # the facade accepts every TTL spelling

                key = keyname[spec["key"]]

                async def section():
                    events.append([key, "in", i, 0, True, drv.tick()])        # the guarded body starts ...
                    try:
                        await asyncio.sleep(spec["dur"] * TICK)
                    finally:
                        events.append([key, "out", i, 0, True, drv.tick()])   # ... and is over (also when cancelled)
                    if spec.get("raise"):
                        raise Boom()
                    return "done"
                try:
                    if spec["via"] == "locked":
                        f = cache.locked(ttl=ttl, key=key, wait=spec["wait"], prefix="", check_interval=spec["ci"] * TICK)(lambda: section())
                        await f()
                    elif spec["via"] == "locked_args":
                        # the lock key is a template over the call's arguments: every spelling of the same call guards the same key
                        async def g(name, pad=0):
                            return await section()
                        f = cache.locked(ttl=ttl, key="{name}", wait=spec["wait"], prefix="", check_interval=spec["ci"] * TICK)(g)
                        await [lambda: f(key), lambda: f(name=key), lambda: f(key, pad=0), lambda: f(pad=0, name=key)][(i + spec["ttl"]) % 4]()
                    elif spec["via"] == "locked_gen" and (i + spec["ttl"]) % 2:
                        # an async generator whose lock key is a template over its arguments: calls with different arguments guard different keys
                        async def gen_t(name, pad=0):
                            yield await section()
                        f = cache.locked(ttl=ttl, key="{name}", wait=spec["wait"], prefix="", check_interval=spec["ci"] * TICK)(gen_t)
                        async for _ in (f(key) if i % 2 else f(name=key)):
                            pass
                    elif spec["via"] == "locked_gen":
                        async def gen():
                            yield await section()
                        f = cache.locked(ttl=ttl, key=key, wait=spec["wait"], prefix="", check_interval=spec["ci"] * TICK)(gen)
                        async for _ in f():
                            pass
                    else:
                        target = cache if spec["via"] == "lock" else (mem2 if key.startswith("p:") else mem)
                        async with target.lock(key, ttl, wait=spec["wait"], check_interval=spec["ci"] * TICK):
                            await section()
                    outcomes[i] = "ok"
                except Boom:
                    outcomes[i] = "ok"        # the body's own exception reached the caller; the lock must have been released on the way
                except LockedError:
                    outcomes[i] = "locked"
                except asyncio.CancelledError:
                    outcomes[i] = "cancelled"
                    raise

            async def intruder():
                await asyncio.sleep(2 * TICK)
                for k in (keyname["L"], "p:M"):
                    await (mem2 if k.startswith("p:") else mem).unlock(k, "intruder-token")
            ts = []
            for i, spec in enumerate(case["tasks"]):
                t = asyncio.get_running_loop().create_task(worker(i, spec), name=f"T{i}")
                drv.tasks[f"T{i}"] = t
                ts.append(t)
            if case["foreign"]:
                ts.append(asyncio.get_running_loop().create_task(intruder(), name="F"))
            if probe:
                ts.append(asyncio.get_running_loop().create_task(prober(), name="P"))
            await asyncio.gather(*ts, return_exceptions=True)
            if probe:
                del mem._key_exist
            for be, raw in raws.items():
                be.set_lock, be.unlock, be.ping = raw["set_lock"], raw["unlock"], raw["ping"]
            await cache.close()
            return {"outcomes": {str(k): v for k, v in outcomes.items()}, "probes": probes}
        return main()
    cancellable = [f"T{case['cancel']}"] if case["cancel"] is not None and case["cancel"] < len(case["tasks"]) else []
    result, drv = sched.run(main_factory, case["schedule"], cancellable=cancellable, max_cancels=1 if cancellable else 0, no_cancel_labels=("unlock",))
    return {"events": events, "result": result, "deadlock": drv.deadlock, "choices": len(drv.trace)}


def to_coq(case, obs):
    traces = []
    for key in (_keyname(case)["L"], "p:M"):
        evs = [e for e in obs["events"] if e[0] == key]
        tr, now = [], 0
        for key_, kind, who, ttl, r, t in evs:
            if t > now:
                tr.append((C("E", C("Tick", Z(t - now))), True)); now = t
            if kind == "try":
                # the TTL the task asked for (in whatever spelling), not the one that reached the backend
                want = case["tasks"][who]["ttl"] if 0 <= who < len(case["tasks"]) else ttl
                tr.append((C("E", C("Try", Nat(who), Z(want))), r if ttl == want else not r))
            elif kind == "leave": tr.append((C("E", C("Leave", Nat(who))), r))
            elif kind == "in": tr.append((C("SecIn", Nat(who)), True))
            elif kind == "out": tr.append((C("SecOut", Nat(who)), True))
            elif kind == "poll": tr.append((C("E", C("Probe")), r))
            else: tr.append((C("E", C("ForeignUnlock", Nat(1000))), r))
        if obs["deadlock"]:
            tr.append((C("E", C("ForeignUnlock", Nat(1000))), True))   # never allowed: flags the run
        traces.append(tr)
    outcomes = (obs["result"] or {}).get("outcomes", {})
    code = {"ok": 0, "locked": 1, "cancelled": 2}
    pol = []
    for i, spec in enumerate(case["tasks"]):
        tries = [e for e in obs["events"] if e[1] == "try" and e[2] == i]
        pol.append((bool(spec["wait"]), Nat(sum(1 for e in tries if not e[4])), Nat(len(tries)), Nat(code.get(outcomes.get(str(i)), 3))))
    # a call that never returned (the run was stopped) is reported as answering the opposite of its polls
    probes = [(Nat(n), Nat(st), Nat(0 if t1 is None else t1 - t0), [bool(b) for b in polls], (not (polls or [False])[-1]) if r is None else bool(r))
              for n, polls, r, st, t0, t1 in (obs["result"] or {}).get("probes", [])]
    return C("CLock", traces, pol, probes)


def nontrivial(case, obs):
    tries = [e for e in obs["events"] if e[1] == "try"]
    return any(not e[4] for e in tries) or any(not e[4] for e in obs["events"] if e[1] == "leave")


def classify(case, obs):
    d = {"tasks": len(case["tasks"]), "events": len(obs["events"]), "purge": int(case["purge"]), "deadlock": int(obs["deadlock"]),
         "scheduler_choices": obs["choices"]}
    for e in obs["events"]:
        if e[1] in ("in", "out"): continue
        d[e[1] + ("_ok" if e[4] else "_fail")] = d.get(e[1] + ("_ok" if e[4] else "_fail"), 0) + 1
    for n, polls, r, *_ in (obs["result"] or {}).get("probes", []):
        k = "is_locked_" + ("plain" if n == 0 else "wait") + ("_true" if r else "_false")
        d[k] = d.get(k, 0) + 1
        d["is_locked_polls"] = d.get("is_locked_polls", 0) + len(polls)
    for v in (obs["result"] or {}).get("outcomes", {}).values():
        d["outcome_" + v] = d.get("outcome_" + v, 0) + 1
    return d


def shrink(case):
    if len(case["tasks"]) > 2:
        for i in range(len(case["tasks"])):
            c = dict(case); c["tasks"] = case["tasks"][:i] + case["tasks"][i + 1:]
            if c["cancel"] is not None and c["cancel"] >= len(c["tasks"]): c["cancel"] = None
            yield c
    for fld, val in (("purge", False), ("foreign", False), ("cancel", None), ("conf", "")):
        if case.get(fld, val) != val:
            c = dict(case); c[fld] = val; yield c
    s = case["schedule"]
    for i in range(min(len(s), 12)):
        if s[i]:
            c = dict(case); c["schedule"] = s[:i] + [0] + s[i + 1:]; yield c

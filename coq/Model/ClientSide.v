(* Executable image of cashews/backends/redis/client_side.py (BcastClientSide) for any number of clients sharing one
   server: the local copy (values and "known absent" markers, an in-memory store with its own TTLs), the
   recently-updated marks (5 s), the listener-started flag, every overridden command, the invalidation loop with the
   own-echo rule and the flush message, loss of the subscription connection and the reconnect after 10 s.
   The server is the one of Model/Redis.v; it sends one invalidation per modified, expired or flushed key to every
   tracking client (BCAST: the writer included).  One event = one whole client command, the passing of time (with the
   server expiring keys), the delivery of all pending messages, or a connection drop.  Time in ms.  Definitions only. *)
From Cashews Require Import Base.Prelude Spec.Glob Model.Redis.
Open Scope Z_scope.

Inductive lkind := LV (v : val) | LA.        (* a value / the "known absent" marker *)
Definition lval := (lkind * option Z)%type.   (* with the local store's own expiry *)
Inductive msg := MKey (k : key) | MFlush.
Record client := { local : key -> option lval; marks : key -> option Z; started : bool; queue : list msg; reconnect : option Z }.
Record cfg := { srv : server; now : Z; clients : nat -> client; nclients : nat }.

Definition llook (c : client) (t : Z) (k : key) : option lval :=
  match local c k with
  | Some (x, Some d) => if d <=? t then None else Some (x, Some d)
  | x => x
  end.
Definition marked (c : client) (t : Z) (k : key) : bool := match marks c k with Some d => t <? d | None => false end.
Definition kupd {A} (f : key -> A) (k : key) (v : A) : key -> A := fun k' => if String.eqb k' k then v else f k'.
Definition cupd (f : nat -> client) (i : nat) (c : client) : nat -> client := fun j => if Nat.eqb j i then c else f j.
(* the in-memory store's write: the given TTL, else the deadline of the live previous entry, else none (memory.py:186-192) *)
Definition lwrite (c : client) (t : Z) (k : key) (x : lkind) (ttl : Z) : key -> option lval :=
  let d := if 0 <? ttl then Some (t + ttl) else match llook c t k with Some (_, d0) => d0 | None => None end in
  kupd (local c) k (Some (x, d)).

Definition with_local (c : client) (l : key -> option lval) := {| local := l; marks := marks c; started := started c; queue := queue c; reconnect := reconnect c |}.
Definition with_marks (c : client) (m : key -> option Z) := {| local := local c; marks := m; started := started c; queue := queue c; reconnect := reconnect c |}.
Definition push (c : client) (ms : list msg) := {| local := local c; marks := marks c; started := started c; queue := if started c then queue c ++ ms else queue c; reconnect := reconnect c |}.
(* the server tells every tracking client *)
Definition broadcast (cs : nat -> client) (ms : list msg) : nat -> client := fun j => push (cs j) ms.

Inductive ccmd2 :=
| KGet (k : key) | KGetMany (ks : list key) | KExists (k : key)
| KSet (k : key) (v : val) (ttl : Z) (ex : option bool) | KSetMany (kvs : list (key * val)) (ttl : Z)
| KIncr (k : key) (by_ : Z) (ttl : Z)
| KDel (k : key) | KDelMany (ks : list key) | KDelMatch (pat : string)
| KExpire (k : key) (ttl : Z) | KClear
| KSetLock (k : key) (tok : Z) (ttl : Z)      (* set_lock with an integer token: on the server and (when accepted) locally the same as set(k, tok, ttl, exist=False) *)
| KUnlock (k : key) (tok : Z).                (* unlock: the server deletes the key iff it holds the token; the local copy is dropped iff it holds the token *)
Inductive event := Cmd (i : nat) (c : ccmd2) | Tick (dt : Z) | Deliver | Drop (i : nat).

Definition MARK_TTL := 5000.
Definition RECONNECT := 10000.

(* read-through of one key: what the server holds, remembered locally (also when the listener is not running) *)
Definition read_through (U : list key) (s : server) (t : Z) (c : client) (k : key) : client * option val :=
  match snd (up_step true U s t (CGet k)) with
  | BVal (Some v) => (with_local c (lwrite c t k (LV v) 0), Some v)
  | _ => (with_local c (lwrite c t k LA 0), None)
  end.
Definition local_read (c : client) (t : Z) (k : key) : option (option val) :=     (* Some: answered locally *)
  if started c then match llook c t k with Some (LV v, _) => Some (Some v) | Some (LA, _) => Some None | None => None end else None.

Definition live_keys (s : server) (t : Z) (ks : list key) : list key := filter (fun k => isSome (look s t k)) ks.

Section Step.
Variable U : list key.       (* the keys that can exist (for SCAN and for expiry notifications) *)

Definition cmd_step (g : cfg) (i : nat) (c : ccmd2) : cfg * bres :=
  let cl := clients g i in
  let t := now g in
  let s := srv g in
  match c with
  | KGet k =>
      match local_read cl t k with
      | Some r => (g, BVal r)
      | None => let '(cl', r) := read_through U s t cl k in
                ({| srv := s; now := t; clients := cupd (clients g) i cl'; nclients := nclients g |}, BVal r)
      end
  | KGetMany ks =>
      (* keys answered locally; the others by one MGET, each remembered (value or "absent") *)
      let '(cl', rs) := fold_left (fun (acc : client * list (option val)) k =>
                                     let '(c0, out) := acc in
                                     match local_read cl t k with
                                     | Some r => (c0, out ++ [r])
                                     | None => let '(c1, r) := read_through U s t c0 k in (c1, out ++ [r])
                                     end) ks (cl, []) in
      ({| srv := s; now := t; clients := cupd (clients g) i cl'; nclients := nclients g |}, BVals rs)
  | KExists k =>
      match local_read cl t k with
      | Some (Some _) => (g, BBool true)
      | _ => (g, snd (up_step true U s t (CExists k)))
      end
  | KSet k v ttl ex =>
      let '(s', r) := up_step true U s t (CSet k v ttl ex) in
      match r with
      | BBool true =>
          let cl' := {| local := lwrite cl t k (LV v) ttl; marks := kupd (marks cl) k (Some (t + MARK_TTL));
                        started := started cl; queue := queue cl; reconnect := reconnect cl |} in
          ({| srv := s'; now := t; clients := broadcast (cupd (clients g) i cl') [MKey k]; nclients := nclients g |}, r)
      | _ => ({| srv := s'; now := t; clients := cupd (clients g) i (with_marks cl (kupd (marks cl) k None)); nclients := nclients g |}, r)
      end
  | KSetMany kvs ttl =>
      let '(s', r) := up_step true U s t (CSetMany kvs ttl) in
      let cl' := fold_left (fun c0 kv => {| local := lwrite c0 t (fst kv) (LV (snd kv)) ttl;
                                            marks := kupd (marks c0) (fst kv) (Some (t + MARK_TTL));
                                            started := started c0; queue := queue c0; reconnect := reconnect c0 |}) kvs cl in
      ({| srv := s'; now := t; clients := broadcast (cupd (clients g) i cl') (map (fun kv => MKey (fst kv)) kvs); nclients := nclients g |}, r)
  | KIncr k by_ ttl =>
      let '(s', r) := up_step true U s t (CIncr k by_ ttl) in
      match r with
      | BInt n =>
          let cl' := if n =? 0 then cl
                     else {| local := lwrite cl t k (LV (VInt n)) ttl; marks := kupd (marks cl) k (Some (t + MARK_TTL));
                             started := started cl; queue := queue cl; reconnect := reconnect cl |} in
          ({| srv := s'; now := t; clients := broadcast (cupd (clients g) i cl') [MKey k]; nclients := nclients g |}, r)
      | _ => ({| srv := s'; now := t; clients := clients g; nclients := nclients g |}, r)
      end
  | KDel k =>
      let '(s', r) := up_step true U s t (CDel k) in
      let cl' := with_local cl (lwrite cl t k LA 0) in
      ({| srv := s'; now := t; clients := broadcast (cupd (clients g) i cl') (map MKey (live_keys s t [k])); nclients := nclients g |}, r)
  | KDelMany ks =>
      let '(s', r) := up_step true U s t (CDelMany ks) in
      let cl' := fold_left (fun c0 k => with_local c0 (lwrite c0 t k LA 0)) ks cl in
      ({| srv := s'; now := t; clients := broadcast (cupd (clients g) i cl') (map MKey (live_keys s t (nodup string_dec ks))); nclients := nclients g |}, r)
  | KDelMatch pat =>
      let '(s', r) := up_step true U s t (CDelMatch pat) in
      let cl' := with_local cl (fun k => if globs pat k then None else local cl k) in
      let gone := if existsb is_star (list_ascii_of_string pat) then c_scan s t U pat else live_keys s t [pat] in
      ({| srv := s'; now := t; clients := broadcast (cupd (clients g) i cl') (map MKey gone); nclients := nclients g |}, r)
  | KExpire k ttl =>
      let '(s', r) := up_step true U s t (CExpire k ttl) in
      let cl' := match llook cl t k with
                 | Some (LV v, _) => {| local := kupd (local cl) k (Some (LV v, Some (t + ttl))); marks := kupd (marks cl) k (Some (t + MARK_TTL));
                                         started := started cl; queue := queue cl; reconnect := reconnect cl |}
                 | _ => cl
                 end in
      ({| srv := s'; now := t; clients := broadcast (cupd (clients g) i cl') (map MKey (live_keys s t [k])); nclients := nclients g |}, r)
  | KClear =>
      let '(s', r) := up_step true U s t CClear in
      ({| srv := s'; now := t; clients := broadcast (cupd (clients g) i (with_local cl (fun _ => None))) [MFlush]; nclients := nclients g |}, r)
  | KSetLock k tok ttl =>
      let '(s', r) := up_step true U s t (CSet k (VInt tok) ttl (Some false)) in
      match r with
      | BBool true =>
          let cl' := {| local := lwrite cl t k (LV (VInt tok)) ttl; marks := kupd (marks cl) k (Some (t + MARK_TTL));
                        started := started cl; queue := queue cl; reconnect := reconnect cl |} in
          ({| srv := s'; now := t; clients := broadcast (cupd (clients g) i cl') [MKey k]; nclients := nclients g |}, r)
      | _ => ({| srv := s'; now := t; clients := cupd (clients g) i (with_marks cl (kupd (marks cl) k None)); nclients := nclients g |}, r)
      end
  | KUnlock k tok =>
      let cl' := match llook cl t k with
                 | Some (LV (VInt z), _) => if z =? tok then with_local cl (kupd (local cl) k None) else cl
                 | _ => cl
                 end in
      match snd (up_step true U s t (CGet k)) with
      | BVal (Some (VInt z)) =>
          if z =? tok
          then let '(s', _) := up_step true U s t (CDel k) in
               ({| srv := s'; now := t; clients := broadcast (cupd (clients g) i cl') (map MKey (live_keys s t [k])); nclients := nclients g |}, BBool true)
          else ({| srv := s; now := t; clients := cupd (clients g) i cl'; nclients := nclients g |}, BBool false)
      | _ => ({| srv := s; now := t; clients := cupd (clients g) i cl'; nclients := nclients g |}, BBool false)
      end
  end.

(* the invalidation loop on one message (client_side.py:151-164) *)
Definition process (t : Z) (c : client) (m : msg) : client :=
  match m with
  | MFlush => with_local c (fun _ => None)
  | MKey k => if marked c t k then with_marks c (kupd (marks c) k None)       (* our own echo: keep the local value, forget the mark *)
              else with_local c (kupd (local c) k None)
  end.
Definition deliver_one (t : Z) (c : client) : client :=
  let c' := fold_left (process t) (queue c) c in
  {| local := local c'; marks := marks c'; started := started c'; queue := []; reconnect := reconnect c' |}.

Definition step (g : cfg) (e : event) : cfg * bres :=
  match e with
  | Cmd i c => cmd_step g i c
  | Deliver => ({| srv := srv g; now := now g; clients := fun j => deliver_one (now g) (clients g j); nclients := nclients g |}, BUnit)
  | Tick dt =>
      if dt <? 0 then (g, BUnit) else
      let t' := now g + dt in
      let expired := filter (fun k => isSome (srv g k) && negb (isSome (look (srv g) t' k))) U in
      let s' := fun k => look (srv g) t' k in
      (* a listener whose 10 s pause is over subscribes again and starts from an empty local copy *)
      let wake (c : client) := match reconnect c with
                               | Some r => if r <=? t' then {| local := fun _ => None; marks := fun _ => None; started := true; queue := []; reconnect := None |} else c
                               | None => c end in
      ({| srv := s'; now := t'; clients := fun j => wake (push (clients g j) (map MKey expired)); nclients := nclients g |}, BUnit)
  | Drop i =>
      let c := clients g i in
      if negb (started c) then (g, BUnit) else          (* no subscription connection to lose: the listener is in its 10 s pause *)
      ({| srv := srv g; now := now g;
          clients := cupd (clients g) i {| local := fun _ => None; marks := marks c; started := false; queue := []; reconnect := Some (now g + RECONNECT) |};
          nclients := nclients g |}, BUnit)
  end.
End Step.

Definition client0 : client := {| local := fun _ => None; marks := fun _ => None; started := true; queue := []; reconnect := None |}.
Definition init (n : nat) : cfg := {| srv := fun _ => None; now := 0; clients := fun _ => client0; nclients := n |}.
Definition run_from (U : list key) (g : cfg) (evs : list event) : cfg := fold_left (fun g e => fst (step U g e)) evs g.
